#![cfg(not(kani))]
//! Native self-test of the reference models (harness/src/spec.rs): the repository's own
//! known-answer vectors (.blb files under ${VERIF_REPO:-/repo}/*/tests/data, RFC 3962, the CTR
//! vectors of ctr/tests) are pushed through the reference models with the REAL ciphers (AES, BelT)
//! installed behind the oracle.  This validates the "translator" (the specification side of every
//! harness) independently of Kani.  Run by bin/setup.py:  cargo test --test spec_vectors
use aes::{Aes128, Aes192, Aes256};
use belt_block::BeltBlock;
use cipher::blobby::Blob4Iterator;
use cipher::{array::Array, BlockCipherDecrypt, BlockCipherEncrypt, KeyInit};
use hex_literal::hex;
use std::sync::Mutex;
use vh::oracle::{MAXB, NATIVE, P};
use vh::spec::{self, Cs};

static KEY: Mutex<Vec<u8>> = Mutex::new(Vec::new());
static LOCK: Mutex<()> = Mutex::new(());

fn real(kid: [u8; 2], inp: &[u8; MAXB], n: usize, forward: bool) -> [u8; MAXB] {
    let key = KEY.lock().unwrap().clone();
    let mut out = [0u8; MAXB];
    macro_rules! run {
        ($c:ty) => {{
            let c = <$c>::new_from_slice(&key).unwrap();
            let mut b = Array::try_from(&inp[..n]).unwrap();
            if forward { c.encrypt_block(&mut b) } else { c.decrypt_block(&mut b) }
            out[..n].copy_from_slice(&b);
        }};
    }
    match (kid[0], key.len()) {
        (0, 16) => run!(Aes128),
        (0, 24) => run!(Aes192),
        (0, 32) => run!(Aes256),
        (1, 32) => run!(BeltBlock),
        _ => panic!("unexpected key"),
    }
    out
}
fn with_key<R>(key: &[u8], f: impl FnOnce() -> R) -> R {
    *KEY.lock().unwrap() = key.to_vec();
    unsafe { NATIVE = Some(real) };
    f()
}
fn repo() -> String {
    std::env::var("VERIF_REPO").unwrap_or_else(|_| "/repo".into())
}
fn rows(path: &str) -> Vec<[Vec<u8>; 4]> {
    let data = std::fs::read(format!("{}/{}", repo(), path)).unwrap();
    let data: &'static [u8] = Box::leak(data.into_boxed_slice());
    Blob4Iterator::new(data).unwrap().map(|r| r.unwrap().map(|x| x.to_vec())).collect()
}
const AES: P = P { key: [0, 0], b: 16 };
const BELT: P = P { key: [1, 0], b: 16 };

#[test]
fn cbc_vectors() {
    let _g = LOCK.lock().unwrap();
    let mut n = 0;
    for f in ["aes128", "aes192", "aes256"] {
        for [key, iv, pt, ct] in rows(&format!("cbc/tests/data/{f}.blb")) {
            with_key(&key, || {
                let mut out = vec![0u8; pt.len()];
                let st = spec::cbc_enc(AES, &iv, &pt, &mut out);
                assert_eq!(out, ct, "CBC encrypt model");
                assert_eq!(&st[..16], &ct[ct.len() - 16..]);
                let mut back = vec![0u8; ct.len()];
                spec::cbc_dec(AES, &iv, &ct, &mut back);
                assert_eq!(back, pt, "CBC decrypt model");
            });
            n += 1;
        }
    }
    assert!(n >= 10);
}

#[test]
fn ige_vectors() {
    let _g = LOCK.lock().unwrap();
    let mut n = 0;
    for [key, iv, pt, ct] in rows("ige/tests/data/aes128.blb") {
        with_key(&key, || {
            let mut out = vec![0u8; pt.len()];
            spec::ige_enc(AES, &iv, &pt, &mut out);
            assert_eq!(out, ct, "IGE encrypt model");
            let mut back = vec![0u8; ct.len()];
            spec::ige_dec(AES, &iv, &ct, &mut back);
            assert_eq!(back, pt, "IGE decrypt model");
        });
        n += 1;
    }
    assert!(n >= 1);
}

#[test]
fn cfb_vectors() {
    let _g = LOCK.lock().unwrap();
    let mut n = 0;
    for f in ["aes128", "aes192", "aes256"] {
        for [key, iv, pt, ct] in rows(&format!("cfb-mode/tests/data/{f}.blb")) {
            with_key(&key, || {
                let mut out = vec![0u8; pt.len()];
                spec::cfb(AES, true, &iv, &pt, &mut out);
                assert_eq!(out, ct, "CFB encrypt model");
                let mut back = vec![0u8; ct.len()];
                spec::cfb(AES, false, &iv, &ct, &mut back);
                assert_eq!(back, pt, "CFB decrypt model");
            });
            n += 1;
        }
    }
    for [key, iv, pt, ct] in rows("cfb-mode/tests/data/belt.blb") {
        with_key(&key, || {
            let mut out = vec![0u8; pt.len()];
            spec::cfb(BELT, true, &iv, &pt, &mut out);
            assert_eq!(out, ct, "CFB (BelT) encrypt model");
        });
        n += 1;
    }
    assert!(n >= 10);
}

#[test]
fn cfb8_vectors() {
    let _g = LOCK.lock().unwrap();
    let mut n = 0;
    for f in ["aes128", "aes192", "aes256"] {
        for [key, iv, pt, ct] in rows(&format!("cfb8/tests/data/{f}.blb")) {
            with_key(&key, || {
                let mut out = vec![0u8; pt.len()];
                spec::cfb8(AES, true, &iv, &pt, &mut out);
                assert_eq!(out, ct, "CFB-8 encrypt model");
                let mut back = vec![0u8; ct.len()];
                spec::cfb8(AES, false, &iv, &ct, &mut back);
                assert_eq!(back, pt, "CFB-8 decrypt model");
            });
            n += 1;
        }
    }
    assert!(n >= 3);
}

#[test]
fn ofb_vectors() {
    let _g = LOCK.lock().unwrap();
    let mut n = 0;
    for [key, iv, pt, ct] in rows("ofb/tests/data/aes128.blb") {
        with_key(&key, || {
            let nb = pt.len().div_ceil(16);
            let mut ks = vec![0u8; nb * 16];
            spec::ofb_ks(AES, &iv, &mut ks);
            let out: Vec<u8> = pt.iter().zip(&ks).map(|(a, b)| a ^ b).collect();
            assert_eq!(out, ct, "OFB keystream model");
        });
        n += 1;
    }
    assert!(n >= 1);
}

#[test]
fn ctr_vectors() {
    let _g = LOCK.lock().unwrap();
    // ctr/tests/ctr32/be.rs and le.rs: counter_incr / counter_wrap vectors
    let key = hex!("000102030405060708090A0B0C0D0E0F");
    with_key(&key, || {
        let n1 = hex!("11111111111111111111111111111111");
        let mut ks = [0u8; 64];
        spec::ctr_ks(AES, spec::CTR32BE, &n1, 0, &mut ks);
        assert_eq!(ks, hex!("35D14E6D3E3A279CF01E343E34E7DED36EEADB04F42E2251AB4377F257856DBA0AB37657B9C2AA09762E518FC9395D5304E96C34CCD2F0A95CDE7321852D90C0"));
        // seek to block 1 == keystream from block index 1
        let mut ks1 = [0u8; 48];
        spec::ctr_ks(AES, spec::CTR32BE, &n1, 1, &mut ks1);
        assert_eq!(&ks1[..], &ks[16..]);
    });
    // stream vectors for Ctr128BE (NIST SP 800-38A F.5)
    let mut n = 0;
    for f in ["aes128-ctr", "aes256-ctr"] {
        for [key, iv, pt, ct] in rows(&format!("ctr/tests/ctr128/data/{f}.blb")) {
            with_key(&key, || {
                let nb = pt.len().div_ceil(16);
                let mut ks = vec![0u8; nb * 16];
                spec::ctr_ks(AES, spec::CTR128BE, &iv, 0, &mut ks);
                let out: Vec<u8> = pt.iter().zip(&ks).map(|(a, b)| a ^ b).collect();
                assert_eq!(out, ct, "CTR128BE layout model");
            });
            n += 1;
        }
    }
    assert!(n >= 2);
}

#[test]
fn belt_ctr_vectors() {
    let _g = LOCK.lock().unwrap();
    let mut n = 0;
    for [key, iv, pt, ct] in rows("belt-ctr/tests/data/belt-ctr.blb") {
        with_key(&key, || {
            let s0 = spec::belt_s0(BELT, &iv);
            let nb = pt.len().div_ceil(16);
            let mut ks = vec![0u8; nb * 16];
            spec::belt_ks(BELT, s0, 0, &mut ks);
            let out: Vec<u8> = pt.iter().zip(&ks).map(|(a, b)| a ^ b).collect();
            assert_eq!(out, ct, "BelT-CTR model");
        });
        n += 1;
    }
    assert!(n >= 1);
}

#[test]
fn cts_rfc3962_vectors() {
    let _g = LOCK.lock().unwrap();
    // RFC 3962 Appendix B (CBC-CS3, AES-128, zero IV): parsed from the repository's own
    // cts/tests/rfc3962.rs (first hex!() group = key, then (plaintext, ciphertext) pairs)
    let src = std::fs::read_to_string(format!("{}/cts/tests/rfc3962.rs", repo())).unwrap();
    let mut groups: Vec<Vec<u8>> = Vec::new();
    let mut rest = &src[..];
    while let Some(i) = rest.find("hex!(") {
        let body = &rest[i + 5..];
        let j = body.find(')').unwrap();
        let digits: Vec<u8> = body[..j].bytes().filter(|c| c.is_ascii_hexdigit()).collect();
        let bytes: Vec<u8> = digits.chunks(2).map(|p| u8::from_str_radix(std::str::from_utf8(p).unwrap(), 16).unwrap()).collect();
        groups.push(bytes);
        rest = &body[j..];
    }
    let key = groups[0].clone();
    let iv = [0u8; 16];
    let cases: Vec<(Vec<u8>, Vec<u8>)> = groups[1..].chunks(2).filter(|c| c.len() == 2).map(|c| (c[0].clone(), c[1].clone())).collect();
    assert!(cases.len() >= 6 && key.len() == 16);
    with_key(&key, || {
        for (pt, want) in &cases {
            let len = pt.len();
            let want = &want[..];
            let mut msg = [0u8; 64];
            msg[..len].copy_from_slice(&pt[..len]);
            let out = spec::cts_enc::<64, 4>(AES, true, Cs::Cs3, &iv, &msg, len);
            assert_eq!(&out[..len], want, "CBC-CS3 model, RFC 3962 len {len}");
            let mut back = vec![0u8; len];
            spec::cts_dec(AES, true, Cs::Cs3, &iv, want, &mut back);
            assert_eq!(&back[..], &pt[..len], "CBC-CS3 decryption model, RFC 3962 len {len}");
            // CS1 / CS2 are re-orderings of the same blocks: round trip through the decryption model
            for v in [Cs::Cs1, Cs::Cs2] {
                let c = spec::cts_enc::<64, 4>(AES, true, v, &iv, &msg, len);
                let mut b2 = vec![0u8; len];
                spec::cts_dec(AES, true, v, &iv, &c[..len], &mut b2);
                assert_eq!(&b2[..], &pt[..len]);
            }
            for v in [Cs::Cs1, Cs::Cs2, Cs::Cs3] {
                let c = spec::cts_enc::<64, 4>(AES, false, v, &iv, &msg, len);
                let mut b2 = vec![0u8; len];
                spec::cts_dec(AES, false, v, &iv, &c[..len], &mut b2);
                assert_eq!(&b2[..], &pt[..len], "ECB-CSx model round trip");
            }
        }
    });
}
