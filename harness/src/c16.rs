//! C16: clones and separate instances are independent, deterministic values.
//!
//! History h1 on the original, clone (or: second instance created the same way and given the
//! same h1), then h2 on the original and h3 on the other object in a SYMBOLIC order; every
//! output must equal that of a fresh instance replaying h1;h2 resp. h1;h3, states likewise.
use crate::prelude::*;

pub const CLONE: u8 = 0;
pub const TWIN: u8 = 1; // two instances created independently
pub const CLONE_FROM: u8 = 2; // an instance keyed differently, overwritten with Clone::clone_from

macro_rules! block_clone_case {
    ($name:ident, $unw:expr, $ty:ident :: $t2:ident, $dir:ident, $how:expr, $bs:ty, $b:expr, $ivbs:ty, $ivlen:expr, $par:ty, $mbs:ty, $mb:expr) => {
        #[kani::proof]
        #[kani::unwind($unw)]
        pub fn $name() {
            const MB: usize = $mb;
            let key: [u8; 2] = kani::any();
            let iv: [u8; $ivlen] = kani::any();
            let h1: [u8; MB] = kani::any();
            let h2: [u8; 2 * MB] = kani::any();
            let h3: [u8; MB] = kani::any();
            let c = Uf::<$bs, $par>::with_key(key);
            let other_key: [u8; 2] = kani::any();
            let other_iv: [u8; $ivlen] = kani::any();
            let mk = || $ty::$t2::inner_iv_init(c.clone(), blk::<$ivbs>(&iv));
            // references: fresh instances replaying h1;h2 and h1;h3
            let (mut a1, mut a2) = (h1, h2);
            let mut r = mk();
            do_blocks!($dir, r, blocks_mut::<$mbs>(&mut a1));
            do_blocks!($dir, r, blocks_mut::<$mbs>(&mut a2));
            let (mut b1, mut b3) = (h1, h3);
            let mut r2 = mk();
            do_blocks!($dir, r2, blocks_mut::<$mbs>(&mut b1));
            do_blocks!($dir, r2, blocks_mut::<$mbs>(&mut b3));
            let (t1, t2) = (r.iv_state(), r2.iv_state());
            // subject
            let (mut x1, mut x2, mut x3) = (h1, h2, h3);
            let ord: usize = kani::any();
            kani::assume(ord <= 1);
            let mut s1 = [0u8; $ivlen];
            let mut s2 = [0u8; $ivlen];
            // (objects are created inside each branch of the order split: an object mutated in one
            // branch would reach the other branch in a merged state)
            split_on!(ord, 0, 1, o_ => {
                let mut o = mk();
                x1 = h1;
                do_blocks!($dir, o, blocks_mut::<$mbs>(&mut x1));
                let mut k = if $how == CLONE {
                    o.clone()
                } else if $how == CLONE_FROM {
                    // destination built with an unrelated key and IV, then overwritten
                    let mut k = $ty::$t2::inner_iv_init(Uf::<$bs, $par>::with_key(other_key), blk::<$ivbs>(&other_iv));
                    k.clone_from(&o);
                    k
                } else {
                    let mut k = mk();
                    let mut y1 = h1;
                    do_blocks!($dir, k, blocks_mut::<$mbs>(&mut y1));
                    k
                };
                if o_ == 0 {
                    do_blocks!($dir, o, blocks_mut::<$mbs>(&mut x2));
                    do_blocks!($dir, k, blocks_mut::<$mbs>(&mut x3));
                } else {
                    do_blocks!($dir, k, blocks_mut::<$mbs>(&mut x3));
                    do_blocks!($dir, o, blocks_mut::<$mbs>(&mut x2));
                }
                s1.copy_from_slice(&o.iv_state());
                s2.copy_from_slice(&k.iv_state());
            });
            let mut j = 0;
            while j < 2 * MB {
                assert!(x2[j] == a2[j], "original's output after cloning differs from a fresh replay");
                j += 1;
            }
            let mut j = 0;
            while j < MB {
                assert!(x1[j] == a1[j]);
                assert!(x3[j] == b3[j], "clone's output differs from a fresh replay");
                j += 1;
            }
            let mut j = 0;
            while j < $ivlen {
                assert!(s1[j] == t1[j] && s2[j] == t2[j], "state after interleaved use differs from a fresh replay");
                j += 1;
            }
            kani::cover!(ord == 0);
            kani::cover!(ord == 1);
        }
    };
}

/// Clone of an object that has never been used (not even a zero-length call): both must behave as
/// fresh instances.
macro_rules! fresh_clone_case {
    ($name:ident, $unw:expr, $ty:ident :: $t2:ident, $dir:ident, $bs:ty, $b:expr, $ivbs:ty, $ivlen:expr, $par:ty, $mbs:ty, $mb:expr) => {
        #[kani::proof]
        #[kani::unwind($unw)]
        pub fn $name() {
            const MB: usize = $mb;
            let key: [u8; 2] = kani::any();
            let iv: [u8; $ivlen] = kani::any();
            let h2: [u8; 2 * MB] = kani::any();
            let h3: [u8; MB] = kani::any();
            let c = Uf::<$bs, $par>::with_key(key);
            let mk = || $ty::$t2::inner_iv_init(c.clone(), blk::<$ivbs>(&iv));
            let (mut a2, mut b3) = (h2, h3);
            let mut r = mk();
            do_blocks!($dir, r, blocks_mut::<$mbs>(&mut a2));
            let mut r2 = mk();
            do_blocks!($dir, r2, blocks_mut::<$mbs>(&mut b3));
            let (t1, t2) = (r.iv_state(), r2.iv_state());
            let (mut x2, mut x3) = (h2, h3);
            let mut o = mk();
            let mut k = o.clone();
            do_blocks!($dir, k, blocks_mut::<$mbs>(&mut x3));
            do_blocks!($dir, o, blocks_mut::<$mbs>(&mut x2));
            let mut j = 0;
            while j < 2 * MB {
                assert!(x2[j] == a2[j], "original (cloned while unused) differs from a fresh instance");
                j += 1;
            }
            let mut j = 0;
            while j < MB {
                assert!(x3[j] == b3[j], "clone of an unused object differs from a fresh instance");
                j += 1;
            }
            let (s1, s2) = (o.iv_state(), k.iv_state());
            let mut j = 0;
            while j < $ivlen {
                assert!(s1[j] == t1[j] && s2[j] == t2[j], "state after cloning an unused object differs from a fresh replay");
                j += 1;
            }
            kani::cover!(true);
        }
    };
}

/// Byte-level objects (stream wrappers, buffered CFB, CTR core): h1 = A bytes, h2 = N2 bytes, h3 = N3 bytes.
macro_rules! bytes_clone_case {
    ($name:ident, $unw:expr, $mk:expr, $call:ident, $how:expr, $b:expr, $a:expr, $n2:expr, $n3:expr) => {
        #[kani::proof]
        #[kani::unwind($unw)]
        pub fn $name() {
            const B: usize = $b;
            let key: [u8; 2] = kani::any();
            let iv: [u8; B] = kani::any();
            let h1: [u8; $a] = kani::any();
            let h2: [u8; $n2] = kani::any();
            let h3: [u8; $n3] = kani::any();
            let (mut a1, mut a2) = (h1, h2);
            let mut r = $mk(key, &iv);
            r.$call(&mut a1);
            r.$call(&mut a2);
            let (mut b1, mut b3) = (h1, h3);
            let mut r2 = $mk(key, &iv);
            r2.$call(&mut b1);
            r2.$call(&mut b3);
            let (mut e1, mut e3) = ([0u8; 1], [0u8; 1]);
            r.$call(&mut e1);
            r2.$call(&mut e3);
            let (mut x1, mut x2, mut x3) = (h1, h2, h3);
            let ord: usize = kani::any();
            kani::assume(ord <= 1);
            let (mut e2, mut e4) = ([0u8; 1], [0u8; 1]);
            split_on!(ord, 0, 1, o_ => {
                let mut o = $mk(key, &iv);
                x1 = h1;
                o.$call(&mut x1);
                let mut k = if $how == CLONE {
                    o.clone()
                } else {
                    let mut k = $mk(key, &iv);
                    let mut y1 = h1;
                    k.$call(&mut y1);
                    k
                };
                if o_ == 0 {
                    o.$call(&mut x2);
                    k.$call(&mut x3);
                } else {
                    k.$call(&mut x3);
                    o.$call(&mut x2);
                }
                // one more byte from each: still in step with the fresh replays
                e2 = [0u8; 1];
                e4 = [0u8; 1];
                o.$call(&mut e2);
                k.$call(&mut e4);
            });
            let mut j = 0;
            while j < $n2 {
                assert!(x2[j] == a2[j], "original's output after cloning differs from a fresh replay");
                j += 1;
            }
            let mut j = 0;
            while j < $n3 {
                assert!(x3[j] == b3[j], "clone's output differs from a fresh replay");
                j += 1;
            }
            assert!(e1[0] == e2[0] && e3[0] == e4[0], "state after interleaved use differs from a fresh replay");
            kani::cover!(ord == 0);
            kani::cover!(ord == 1);
        }
    };
}

/// CTR core (hand-written Clone): clone at a symbolic block position keeps position, remaining and keystream.
macro_rules! ctr_core_clone {
    ($name:ident, $unw:expr, $flavor:ident, $ct:ty, $bs:ty, $b:expr, $par:ty) => {
        #[kani::proof]
        #[kani::unwind($unw)]
        pub fn $name() {
            const B: usize = $b;
            let iv: [u8; B] = kani::any();
            let pos: $ct = kani::any();
            kani::assume(pos <= <$ct>::MAX - 8);
            let c = UfE::<$bs, $par>::with_key(kani::any());
            let mut o = ctr::CtrCore::<_, ctr::flavors::$flavor>::inner_iv_init(c.clone(), blk::<$bs>(&iv));
            o.set_block_pos(pos as _);
            let mut k = o.clone();
            assert!(k.get_block_pos() as u128 == pos as u128 && k.remaining_blocks() == o.remaining_blocks(), "clone lost the position");
            let d: [u8; 2 * B] = kani::any();
            let (mut x, mut y) = (d, d);
            o.apply_keystream_blocks(blocks_mut::<$bs>(&mut x));
            assert!(k.get_block_pos() as u128 == pos as u128, "using the original moved the clone");
            k.apply_keystream_blocks(blocks_mut::<$bs>(&mut y));
            let mut j = 0;
            while j < 2 * B {
                assert!(x[j] == y[j], "clone produces a different keystream");
                j += 1;
            }
            let (s1, s2) = (o.iv_state(), k.iv_state());
            let mut j = 0;
            while j < B {
                assert!(s1[j] == s2[j]);
                j += 1;
            }
            kani::cover!(true);
        }
    };
}

/// CTS objects are consumed by their one call: clone, use both (symbolic order), compare with fresh.
macro_rules! cts_clone_case {
    ($name:ident, $unw:expr, $ty:ident, $dir:ident, $bs:ty, $b:expr, $l2:expr, $l3:expr) => {
        #[kani::proof]
        #[kani::unwind($unw)]
        pub fn $name() {
            use cts::{Decrypt, Encrypt};
            const B: usize = $b;
            let key: [u8; 2] = kani::any();
            let iv: [u8; B] = kani::any();
            let h2: [u8; $l2] = kani::any();
            let h3: [u8; $l3] = kani::any();
            let mk = || crate::common::mk::$ty(Uf::<$bs, U2>::with_key(key), &iv);
            let (mut a2, mut b3) = (h2, h3);
            assert!(do_oneshot!($dir, mk(), &mut a2).is_ok());
            assert!(do_oneshot!($dir, mk(), &mut b3).is_ok());
            let (mut x2, mut x3) = (h2, h3);
            let ord: usize = kani::any();
            kani::assume(ord <= 1);
            split_on!(ord, 0, 1, o_ => {
                let o = mk();
                let k = o.clone();
                if o_ == 0 {
                    assert!(do_oneshot!($dir, o, &mut x2).is_ok());
                    assert!(do_oneshot!($dir, k, &mut x3).is_ok());
                } else {
                    assert!(do_oneshot!($dir, k, &mut x3).is_ok());
                    assert!(do_oneshot!($dir, o, &mut x2).is_ok());
                }
            });
            let mut j = 0;
            while j < $l2 {
                assert!(x2[j] == a2[j], "original differs from a fresh instance");
                j += 1;
            }
            let mut j = 0;
            while j < $l3 {
                assert!(x3[j] == b3[j], "clone differs from a fresh instance");
                j += 1;
            }
            kani::cover!(ord == 1);
        }
    };
}

/// Hidden shared state: an instance with ANOTHER key but the SAME IV is created and used first; the
/// subject created afterwards must still produce the specified keystream for its own key.
macro_rules! other_first_stream {
    ($name:ident, $unw:expr, $mk:expr, $ks:expr, $b:expr, $l:expr) => {
        #[kani::proof]
        #[kani::unwind($unw)]
        pub fn $name() {
            const B: usize = $b;
            const L: usize = $l;
            const NB: usize = (L + B - 1) / B;
            let k1: [u8; 2] = kani::any();
            let k2: [u8; 2] = kani::any();
            let iv: [u8; B] = kani::any();
            let mut ks = [0u8; NB * B];
            $ks(P { key: k2, b: B }, &iv, &mut ks);
            let mut a = $mk(k1, &iv);
            let mut junk: [u8; 3] = kani::any();
            a.apply_keystream(&mut junk);
            let mut s = $mk(k2, &iv);
            let d: [u8; L] = kani::any();
            let mut buf = d;
            s.apply_keystream(&mut buf);
            let mut i = 0;
            while i < L {
                assert!(buf[i] == d[i] ^ ks[i], "an earlier instance (other key, same IV) influenced this one");
                i += 1;
            }
            kani::cover!(k1[0] != k2[0]);
        }
    };
}
fn ks_belt(p: P, iv: &[u8], ks: &mut [u8]) { let s0 = spec::belt_s0(p, iv); spec::belt_ks(p, s0, 0, ks) }
fn ks_ctr64le(p: P, iv: &[u8], ks: &mut [u8]) { spec::ctr_ks(p, spec::CTR64LE, iv, 0, ks) }
fn ks_ofb(p: P, iv: &[u8], ks: &mut [u8]) { spec::ofb_ks(p, iv, ks); }
fn mk_belt_plain(key: [u8; 2], iv: &[u8; 16]) -> belt_ctr::BeltCtr<UfE<U16, U1>> { belt_ctr::BeltCtr::new(&key.into(), blk::<U16>(iv)) }

fn mk_ofb_b2(key: [u8; 2], iv: &[u8; 2]) -> ofb::Ofb<UfE<U2, U2>> { ofb::Ofb::new(&key.into(), blk::<U2>(iv)) }
fn mk_ctr32be_b4(key: [u8; 2], iv: &[u8; 4]) -> ctr::Ctr32BE<UfE<U4, U2>> { ctr::Ctr32BE::new(&key.into(), blk::<U4>(iv)) }
fn mk_ctr32le_b4(key: [u8; 2], iv: &[u8; 4]) -> ctr::Ctr32LE<UfE<U4, U1>> { ctr::Ctr32LE::new(&key.into(), blk::<U4>(iv)) }
fn mk_ctr64be_b8(key: [u8; 2], iv: &[u8; 8]) -> ctr::Ctr64BE<UfE<U8, U1>> { ctr::Ctr64BE::new(&key.into(), blk::<U8>(iv)) }
fn mk_ctr64le_b8(key: [u8; 2], iv: &[u8; 8]) -> ctr::Ctr64LE<UfE<U8, U2>> { ctr::Ctr64LE::new(&key.into(), blk::<U8>(iv)) }
fn mk_ctr128be_b16(key: [u8; 2], iv: &[u8; 16]) -> ctr::Ctr128BE<UfE<U16, U2>> { ctr::Ctr128BE::new(&key.into(), blk::<U16>(iv)) }
fn mk_ctr128le_b16(key: [u8; 2], iv: &[u8; 16]) -> ctr::Ctr128LE<UfE<U16, U1>> { ctr::Ctr128LE::new(&key.into(), blk::<U16>(iv)) }
fn mk_bufenc_b2(key: [u8; 2], iv: &[u8; 2]) -> cfb_mode::BufEncryptor<UfE<U2, U1>> { cfb_mode::BufEncryptor::new(&key.into(), blk::<U2>(iv)) }
fn mk_bufdec_b2(key: [u8; 2], iv: &[u8; 2]) -> cfb_mode::BufDecryptor<UfE<U2, U1>> { cfb_mode::BufDecryptor::new(&key.into(), blk::<U2>(iv)) }
fn mk_bufenc_b3(key: [u8; 2], iv: &[u8; 3]) -> cfb_mode::BufEncryptor<UfE<U3, U1>> { cfb_mode::BufEncryptor::new(&key.into(), blk::<U3>(iv)) }

// ---- quick -----------------------------------------------------------------------------------
block_clone_case!(cbc_enc_clone, 48, cbc::Encryptor, enc, CLONE, U2, 2, U2, 2, U2, U2, 2);
block_clone_case!(cbc_dec_clone, 48, cbc::Decryptor, dec, CLONE, U2, 2, U2, 2, U2, U2, 2);
block_clone_case!(pcbc_enc_clone, 48, pcbc::Encryptor, enc, CLONE, U2, 2, U2, 2, U2, U2, 2);
block_clone_case!(pcbc_dec_clone, 48, pcbc::Decryptor, dec, CLONE, U2, 2, U2, 2, U2, U2, 2);
block_clone_case!(ige_enc_clone, 48, ige::Encryptor, enc, CLONE, U2, 2, U4, 4, U2, U2, 2);
block_clone_case!(ige_dec_clone, 48, ige::Decryptor, dec, CLONE, U2, 2, U4, 4, U2, U2, 2);
block_clone_case!(cfb_enc_clone, 48, cfb_mode::Encryptor, enc, CLONE, U2, 2, U2, 2, U2, U2, 2);
block_clone_case!(cfb_dec_clone, 48, cfb_mode::Decryptor, dec, CLONE, U2, 2, U2, 2, U2, U2, 2);
block_clone_case!(cfb8_enc_clone, 48, cfb8::Encryptor, enc, CLONE, U2, 2, U2, 2, U1, U1, 1);
block_clone_case!(cfb8_dec_clone, 48, cfb8::Decryptor, dec, CLONE, U2, 2, U2, 2, U1, U1, 1);
block_clone_case!(ofb_core_clone, 48, ofb::OfbCore, enc, CLONE, U2, 2, U2, 2, U2, U2, 2);
block_clone_case!(cbc_enc_twin, 48, cbc::Encryptor, enc, TWIN, U2, 2, U2, 2, U2, U2, 2);
block_clone_case!(cfb_dec_twin, 48, cfb_mode::Decryptor, dec, TWIN, U2, 2, U2, 2, U2, U2, 2);
bytes_clone_case!(ofb_clone_b2, 48, mk_ofb_b2, apply_keystream, CLONE, 2, 1, 3, 2);
bytes_clone_case!(ctr32be_clone_b4, 48, mk_ctr32be_b4, apply_keystream, CLONE, 4, 3, 5, 2);
bytes_clone_case!(ctr64le_clone_b8, 64, mk_ctr64le_b8, apply_keystream, CLONE, 8, 3, 9, 6);
bytes_clone_case!(ctr128be_clone_b16, 80, mk_ctr128be_b16, apply_keystream, CLONE, 16, 5, 17, 12);
bytes_clone_case!(bufenc_clone_b2, 48, mk_bufenc_b2, encrypt, CLONE, 2, 1, 3, 2);
bytes_clone_case!(bufdec_clone_b2, 48, mk_bufdec_b2, decrypt, CLONE, 2, 1, 3, 2);
bytes_clone_case!(ctr32be_twin_b4, 48, mk_ctr32be_b4, apply_keystream, TWIN, 4, 3, 5, 2);
bytes_clone_case!(bufenc_twin_b2, 48, mk_bufenc_b2, encrypt, TWIN, 2, 1, 3, 2);
block_clone_case!(cbc_enc_clone_from, 48, cbc::Encryptor, enc, CLONE_FROM, U2, 2, U2, 2, U2, U2, 2);
block_clone_case!(cbc_dec_clone_from, 48, cbc::Decryptor, dec, CLONE_FROM, U2, 2, U2, 2, U2, U2, 2);
block_clone_case!(cfb_enc_clone_from, 48, cfb_mode::Encryptor, enc, CLONE_FROM, U2, 2, U2, 2, U2, U2, 2);
block_clone_case!(ige_dec_clone_from, 48, ige::Decryptor, dec, CLONE_FROM, U2, 2, U4, 4, U2, U2, 2);
other_first_stream!(other_first_belt, 80, mk_belt_plain, ks_belt, 16, 17);
other_first_stream!(other_first_ctr64le, 64, mk_ctr64le_b8, ks_ctr64le, 8, 9);
other_first_stream!(other_first_ofb, 48, mk_ofb_b2, ks_ofb, 2, 5);
fresh_clone_case!(cbc_enc_fresh_clone, 48, cbc::Encryptor, enc, U2, 2, U2, 2, U2, U2, 2);
fresh_clone_case!(cfb_enc_fresh_clone, 48, cfb_mode::Encryptor, enc, U2, 2, U2, 2, U2, U2, 2);
fresh_clone_case!(cfb_dec_fresh_clone, 48, cfb_mode::Decryptor, dec, U2, 2, U2, 2, U2, U2, 2);
fresh_clone_case!(ige_dec_fresh_clone, 48, ige::Decryptor, dec, U2, 2, U4, 4, U2, U2, 2);
fresh_clone_case!(cfb8_enc_fresh_clone, 48, cfb8::Encryptor, enc, U2, 2, U2, 2, U1, U1, 1);
fresh_clone_case!(ofb_core_fresh_clone, 48, ofb::OfbCore, enc, U2, 2, U2, 2, U2, U2, 2);
ctr_core_clone!(ctr32be_core_clone, 48, Ctr32BE, u32, U4, 4, U2);
ctr_core_clone!(ctr64le_core_clone, 64, Ctr64LE, u64, U8, 8, U2);
ctr_core_clone!(ctr128be_core_clone, 80, Ctr128BE, u128, U16, 16, U1);
cts_clone_case!(cts_cbc_cs1_clone, 48, CbcCs1, enc, U2, 2, 5, 3);
cts_clone_case!(cts_cbc_cs3_clone, 48, CbcCs3, dec, U2, 2, 5, 3);
cts_clone_case!(cts_ecb_cs2_clone, 48, EcbCs2, enc, U2, 2, 5, 4);

// ---- thorough --------------------------------------------------------------------------------
block_clone_case!(t_pcbc_enc_clone_from, 48, pcbc::Encryptor, enc, CLONE_FROM, U2, 2, U2, 2, U2, U2, 2);
block_clone_case!(t_pcbc_dec_clone_from, 48, pcbc::Decryptor, dec, CLONE_FROM, U2, 2, U2, 2, U2, U2, 2);
block_clone_case!(t_cfb_dec_clone_from, 48, cfb_mode::Decryptor, dec, CLONE_FROM, U2, 2, U2, 2, U2, U2, 2);
block_clone_case!(t_cfb8_enc_clone_from, 48, cfb8::Encryptor, enc, CLONE_FROM, U2, 2, U2, 2, U1, U1, 1);
block_clone_case!(t_ofb_core_clone_from, 48, ofb::OfbCore, enc, CLONE_FROM, U2, 2, U2, 2, U2, U2, 2);
block_clone_case!(t_ige_enc_clone_from, 48, ige::Encryptor, enc, CLONE_FROM, U2, 2, U4, 4, U2, U2, 2);
block_clone_case!(t_cbc_dec_clone_b4_w3, 64, cbc::Decryptor, dec, CLONE, U4, 4, U4, 4, U3, U4, 4);
block_clone_case!(t_pcbc_enc_twin, 48, pcbc::Encryptor, enc, TWIN, U2, 2, U2, 2, U2, U2, 2);
block_clone_case!(t_ige_dec_twin, 48, ige::Decryptor, dec, TWIN, U2, 2, U4, 4, U2, U2, 2);
block_clone_case!(t_cfb_enc_clone_b4_w3, 64, cfb_mode::Encryptor, enc, CLONE, U4, 4, U4, 4, U3, U4, 4);
block_clone_case!(t_cfb8_enc_twin, 48, cfb8::Encryptor, enc, TWIN, U2, 2, U2, 2, U1, U1, 1);
block_clone_case!(t_ofb_core_twin, 48, ofb::OfbCore, dec, TWIN, U2, 2, U2, 2, U2, U2, 2);
bytes_clone_case!(t_ctr32le_clone_b4, 48, mk_ctr32le_b4, apply_keystream, CLONE, 4, 4, 1, 7);
bytes_clone_case!(t_ctr64be_clone_b8, 64, mk_ctr64be_b8, apply_keystream, CLONE, 8, 8, 3, 9);
bytes_clone_case!(t_ctr128le_clone_b16, 80, mk_ctr128le_b16, apply_keystream, CLONE, 16, 15, 2, 18);
bytes_clone_case!(t_ofb_twin_b2, 48, mk_ofb_b2, apply_keystream, TWIN, 2, 2, 1, 3);
bytes_clone_case!(t_bufenc_clone_b3, 48, mk_bufenc_b3, encrypt, CLONE, 3, 2, 5, 1);
bytes_clone_case!(t_bufdec_twin_b2, 48, mk_bufdec_b2, decrypt, TWIN, 2, 1, 2, 3);
ctr_core_clone!(t_ctr32le_core_clone, 48, Ctr32LE, u32, U8, 8, U1);
ctr_core_clone!(t_ctr64be_core_clone, 64, Ctr64BE, u64, U16, 16, U2);
ctr_core_clone!(t_ctr128le_core_clone, 80, Ctr128LE, u128, U16, 16, U2);
cts_clone_case!(t_cts_cbc_cs2_clone, 48, CbcCs2, dec, U2, 2, 4, 3);
cts_clone_case!(t_cts_ecb_cs1_clone, 48, EcbCs1, dec, U2, 2, 5, 2);
cts_clone_case!(t_cts_ecb_cs3_clone, 48, EcbCs3, enc, U2, 2, 3, 5);
