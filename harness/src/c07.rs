//! C07: output and chaining state are independent of how the blocks are batched into calls and of
//! the cipher backend's parallel width.
//!
//! Reference run (a): one `*_block` call per block on a width-1 cipher.
//! Subject run (b): the same blocks cut at two SYMBOLIC points k1 <= k2 into three pieces, fed as
//!   piece 1 `*_blocks_b2b` (into a dirty buffer), piece 2 `*_blocks_inout`, piece 3 `*_blocks`
//!   in place (or `*_block_b2b` when it is a single block), on a width-w cipher with the same key
//!   (= the same permutation in the oracle).
use crate::prelude::*;
use cipher::inout::InOutBuf;

macro_rules! batch_case {
    ($name:ident, $unw:expr, $ty:ident :: $t2:ident, $dir:ident, $bs:ty, $b:expr, $ivbs:ty, $ivlen:expr, $par:ty, $n:expr, $mbs:ty, $mb:expr) => {
        // $mbs/$mb: the mode's own block size (== cipher's, except CFB-8 where it is U1/1)
        #[kani::proof]
        #[kani::unwind($unw)]
        pub fn $name() {
            const MB: usize = $mb;
            const N: usize = $n;
            const L: usize = MB * N;
            let key: [u8; 2] = kani::any();
            let iv: [u8; $ivlen] = kani::any();
            let input: [u8; L] = kani::any();
            // (a) reference: one block per call, width 1
            let c1 = Uf::<$bs, U1>::with_key(key);
            let mut m1 = $ty::$t2::inner_iv_init(c1, blk::<$ivbs>(&iv));
            let mut r = input;
            for blk in blocks_mut::<$mbs>(&mut r).iter_mut() {
                do_block!($dir, m1, blk);
            }
            let st1 = m1.iv_state();
            // (b) subject: three pieces at symbolic cut points, width w
            let k1: usize = kani::any();
            let k2: usize = kani::any();
            kani::assume(k1 <= k2 && k2 <= N);
            let cw = Uf::<$bs, $par>::with_key(key);
            let mut m2 = $ty::$t2::inner_iv_init(cw, blk::<$ivbs>(&iv));
            let dirty: [u8; L] = kani::any();
            let mut out = dirty;
            {
                let ib = blocks::<$mbs>(&input);
                let ob = blocks_mut::<$mbs>(&mut out);
                let (i1, irest) = ib.split_at(k1);
                let (i2, i3) = irest.split_at(k2 - k1);
                let (o1, orest) = ob.split_at_mut(k1);
                let (o2, o3) = orest.split_at_mut(k2 - k1);
                assert!(do_blocks_b2b!($dir, m2, i1, o1).is_ok());
                do_blocks_inout!($dir, m2, InOutBuf::new(i2, o2).unwrap());
                if i3.len() == 1 {
                    do_block_b2b!($dir, m2, &i3[0], &mut o3[0]);
                } else {
                    o3.clone_from_slice(i3);
                    do_blocks!($dir, m2, o3);
                }
            }
            let mut i = 0;
            while i < L {
                assert!(out[i] == r[i], "output depends on batching / parallel width");
                i += 1;
            }
            let st2 = m2.iv_state();
            let mut j = 0;
            while j < $ivlen {
                assert!(st1[j] == st2[j], "chaining state depends on batching / parallel width");
                j += 1;
            }
            kani::cover!(k1 == 1 && k2 == N - 1);
            kani::cover!(k1 == 0 && k2 == N);
            kani::cover!(k2 == N - 1);
        }
    };
}

/// Keystream cores (CTR flavours, BelT-CTR, OFB): pieces through apply_keystream_blocks (in place),
/// apply_keystream_blocks_inout and write_keystream_blocks; reference = one block per call, width 1.
macro_rules! ks_batch_case {
    ($name:ident, $unw:expr, $mk:expr, $ct:ty, $seek:expr, $bs:ty, $b:expr, $par:ty, $n:expr) => {
        #[kani::proof]
        #[kani::unwind($unw)]
        pub fn $name() {
            const B: usize = $b;
            const N: usize = $n;
            const L: usize = B * N;
            let key: [u8; 2] = kani::any();
            let iv: [u8; B] = kani::any();
            let input: [u8; L] = kani::any();
            let pos: $ct = kani::any();
            kani::assume(pos <= <$ct>::MAX - N as $ct);
            let c1 = UfE::<$bs, U1>::with_key(key);
            let mut m1 = $mk(c1, blk::<$bs>(&iv));
            if $seek { m1.set_block_pos(pos as _); }
            let mut r = input;
            for blk in blocks_mut::<$bs>(&mut r).iter_mut() {
                m1.apply_keystream_blocks(core::slice::from_mut(blk));
            }
            let k1: usize = kani::any();
            let k2: usize = kani::any();
            kani::assume(k1 <= k2 && k2 <= N);
            let cw = UfE::<$bs, $par>::with_key(key);
            let mut m2 = $mk(cw, blk::<$bs>(&iv));
            if $seek { m2.set_block_pos(pos as _); }
            let dirty: [u8; L] = kani::any();
            let mut out = dirty;
            {
                let ib = blocks::<$bs>(&input);
                let ob = blocks_mut::<$bs>(&mut out);
                let (i1, irest) = ib.split_at(k1);
                let (i2, i3) = irest.split_at(k2 - k1);
                let (o1, orest) = ob.split_at_mut(k1);
                let (o2, o3) = orest.split_at_mut(k2 - k1);
                o1.clone_from_slice(i1);
                m2.apply_keystream_blocks(o1);
                m2.apply_keystream_blocks_inout(InOutBuf::new(i2, o2).unwrap());
                // piece 3: raw keystream, XORed by the harness
                m2.write_keystream_blocks(o3);
                let mut a = 0;
                while a < o3.len() {
                    let mut j = 0;
                    while j < B {
                        o3[a][j] ^= i3[a][j];
                        j += 1;
                    }
                    a += 1;
                }
            }
            let mut i = 0;
            while i < L {
                assert!(out[i] == r[i], "keystream depends on batching / parallel width");
                i += 1;
            }
            assert!(m1.get_block_pos() == m2.get_block_pos(), "position depends on batching");
            kani::cover!(k1 == 1 && k2 == N - 1);
            kani::cover!(k1 == 0 && k2 == N);
        }
    };
}

/// OFB has no seek; same shape without position.
macro_rules! ofb_batch_case {
    ($name:ident, $unw:expr, $bs:ty, $b:expr, $par:ty, $n:expr) => {
        #[kani::proof]
        #[kani::unwind($unw)]
        pub fn $name() {
            const B: usize = $b;
            const N: usize = $n;
            const L: usize = B * N;
            let key: [u8; 2] = kani::any();
            let iv: [u8; B] = kani::any();
            let input: [u8; L] = kani::any();
            let c1 = UfE::<$bs, U1>::with_key(key);
            let mut m1 = ofb::OfbCore::inner_iv_init(c1, blk::<$bs>(&iv));
            let mut r = input;
            for blk in blocks_mut::<$bs>(&mut r).iter_mut() {
                m1.encrypt_block(blk);
            }
            let k1: usize = kani::any();
            let k2: usize = kani::any();
            kani::assume(k1 <= k2 && k2 <= N);
            let cw = UfE::<$bs, $par>::with_key(key);
            let mut m2 = ofb::OfbCore::inner_iv_init(cw, blk::<$bs>(&iv));
            let dirty: [u8; L] = kani::any();
            let mut out = dirty;
            {
                let ib = blocks::<$bs>(&input);
                let ob = blocks_mut::<$bs>(&mut out);
                let (i1, irest) = ib.split_at(k1);
                let (i2, i3) = irest.split_at(k2 - k1);
                let (o1, orest) = ob.split_at_mut(k1);
                let (o2, o3) = orest.split_at_mut(k2 - k1);
                assert!(m2.decrypt_blocks_b2b(i1, o1).is_ok());
                m2.apply_keystream_blocks_inout(InOutBuf::new(i2, o2).unwrap());
                o3.clone_from_slice(i3);
                m2.encrypt_blocks(o3);
            }
            let mut i = 0;
            while i < L {
                assert!(out[i] == r[i], "OFB output depends on batching / face / width");
                i += 1;
            }
            let (s1, s2) = (m1.iv_state(), m2.iv_state());
            let mut j = 0;
            while j < B {
                assert!(s1[j] == s2[j]);
                j += 1;
            }
            kani::cover!(k1 == 1 && k2 == N - 1);
        }
    };
}

/// CTS one-shot calls on a long message: result independent of the cipher's width.
macro_rules! cts_width_case {
    ($name:ident, $unw:expr, $ty:ident, $dir:ident, $bs:ty, $b:expr, $par:ty, $l:expr) => {
        #[kani::proof]
        #[kani::unwind($unw)]
        pub fn $name() {
            use cts::{Decrypt, Encrypt};
            const B: usize = $b;
            const L: usize = $l;
            let key: [u8; 2] = kani::any();
            let iv: [u8; B] = kani::any();
            let input: [u8; L] = kani::any();
            let mut a = input;
            let mut b = input;
            let ra = do_oneshot!($dir, crate::common::mk::$ty(Uf::<$bs, U1>::with_key(key), &iv), &mut a);
            let rb = do_oneshot!($dir, crate::common::mk::$ty(Uf::<$bs, $par>::with_key(key), &iv), &mut b);
            assert!(ra.is_ok() && rb.is_ok());
            let mut i = 0;
            while i < L {
                assert!(a[i] == b[i], "CTS result depends on the cipher's parallel width");
                i += 1;
            }
            kani::cover!(true);
        }
    };
}

fn mk_ctr32be<C: cipher::BlockCipherEncrypt<BlockSize = U4>>(c: C, iv: &Array<u8, U4>) -> ctr::CtrCore<C, ctr::flavors::Ctr32BE> { ctr::CtrCore::inner_iv_init(c, iv) }
fn mk_ctr64le<C: cipher::BlockCipherEncrypt<BlockSize = U8>>(c: C, iv: &Array<u8, U8>) -> ctr::CtrCore<C, ctr::flavors::Ctr64LE> { ctr::CtrCore::inner_iv_init(c, iv) }
fn mk_ctr128be<C: cipher::BlockCipherEncrypt<BlockSize = U16>>(c: C, iv: &Array<u8, U16>) -> ctr::CtrCore<C, ctr::flavors::Ctr128BE> { ctr::CtrCore::inner_iv_init(c, iv) }
fn mk_ctr32le<C: cipher::BlockCipherEncrypt<BlockSize = U4>>(c: C, iv: &Array<u8, U4>) -> ctr::CtrCore<C, ctr::flavors::Ctr32LE> { ctr::CtrCore::inner_iv_init(c, iv) }
fn mk_ctr64be<C: cipher::BlockCipherEncrypt<BlockSize = U8>>(c: C, iv: &Array<u8, U8>) -> ctr::CtrCore<C, ctr::flavors::Ctr64BE> { ctr::CtrCore::inner_iv_init(c, iv) }
fn mk_ctr128le<C: cipher::BlockCipherEncrypt<BlockSize = U16>>(c: C, iv: &Array<u8, U16>) -> ctr::CtrCore<C, ctr::flavors::Ctr128LE> { ctr::CtrCore::inner_iv_init(c, iv) }
fn mk_belt<C: cipher::BlockCipherEncrypt<BlockSize = U16>>(c: C, iv: &Array<u8, U16>) -> belt_ctr::BeltCtrCore<C> { belt_ctr::BeltCtrCore::inner_iv_init(c, iv) }

// ---- quick: n=4, w in {2,3}, b=2 ----------------------------------------------------------
batch_case!(cbc_enc_b2_w2_n4, 48, cbc::Encryptor, enc, U2, 2, U2, 2, U2, 4, U2, 2);
batch_case!(cbc_dec_b2_w3_n4, 48, cbc::Decryptor, dec, U2, 2, U2, 2, U3, 4, U2, 2);
batch_case!(cbc_dec_b2_w2_n4, 48, cbc::Decryptor, dec, U2, 2, U2, 2, U2, 4, U2, 2);
batch_case!(pcbc_enc_b2_w3_n4, 48, pcbc::Encryptor, enc, U2, 2, U2, 2, U3, 4, U2, 2);
batch_case!(pcbc_dec_b2_w2_n4, 48, pcbc::Decryptor, dec, U2, 2, U2, 2, U2, 4, U2, 2);
batch_case!(ige_enc_b2_w2_n4, 48, ige::Encryptor, enc, U2, 2, U4, 4, U2, 4, U2, 2);
batch_case!(ige_dec_b2_w3_n4, 48, ige::Decryptor, dec, U2, 2, U4, 4, U3, 4, U2, 2);
batch_case!(cfb_enc_b2_w2_n4, 48, cfb_mode::Encryptor, enc, U2, 2, U2, 2, U2, 4, U2, 2);
batch_case!(cfb_dec_b2_w3_n4, 48, cfb_mode::Decryptor, dec, U2, 2, U2, 2, U3, 4, U2, 2);
batch_case!(cfb_dec_b2_w2_n4, 48, cfb_mode::Decryptor, dec, U2, 2, U2, 2, U2, 4, U2, 2);
batch_case!(cfb8_enc_b2_w2_n4, 48, cfb8::Encryptor, enc, U2, 2, U2, 2, U2, 4, U1, 1);
batch_case!(cfb8_dec_b2_w2_n4, 48, cfb8::Decryptor, dec, U2, 2, U2, 2, U2, 4, U1, 1);
ofb_batch_case!(ofb_b2_w2_n4, 48, U2, 2, U2, 4);
ks_batch_case!(ctr32be_b4_w2_n4, 48, mk_ctr32be, u32, true, U4, 4, U2, 4);
ks_batch_case!(ctr64le_b8_w3_n4, 64, mk_ctr64le, u64, true, U8, 8, U3, 4);
cts_width_case!(cts_cbc_cs3_enc_b2_w3_l9, 48, CbcCs3, enc, U2, 2, U3, 9);
cts_width_case!(cts_cbc_cs1_dec_b2_w2_l9, 48, CbcCs1, dec, U2, 2, U2, 9);
cts_width_case!(cts_ecb_cs2_enc_b2_w2_l9, 48, EcbCs2, enc, U2, 2, U2, 9);
cts_width_case!(cts_ecb_cs3_dec_b2_w3_l10, 48, EcbCs3, dec, U2, 2, U3, 10);

// ---- thorough: n=5 with w=2 (two full groups + tail), w=4, larger blocks ---------------------
batch_case!(t_cbc_enc_b4_w3_n5, 64, cbc::Encryptor, enc, U4, 4, U4, 4, U3, 5, U4, 4);
batch_case!(t_cbc_dec_b2_w2_n5, 48, cbc::Decryptor, dec, U2, 2, U2, 2, U2, 5, U2, 2);
batch_case!(t_cbc_dec_b1_w4_n5, 48, cbc::Decryptor, dec, U1, 1, U1, 1, U4, 5, U1, 1);
batch_case!(t_cbc_dec_b4_w3_n4, 64, cbc::Decryptor, dec, U4, 4, U4, 4, U3, 4, U4, 4);
batch_case!(t_pcbc_enc_b2_w2_n5, 48, pcbc::Encryptor, enc, U2, 2, U2, 2, U2, 5, U2, 2);
batch_case!(t_pcbc_dec_b2_w4_n5, 48, pcbc::Decryptor, dec, U2, 2, U2, 2, U4, 5, U2, 2);
batch_case!(t_pcbc_dec_b3_w3_n4, 48, pcbc::Decryptor, dec, U3, 3, U3, 3, U3, 4, U3, 3);
batch_case!(t_ige_enc_b2_w4_n5, 48, ige::Encryptor, enc, U2, 2, U4, 4, U4, 5, U2, 2);
batch_case!(t_ige_dec_b2_w2_n5, 48, ige::Decryptor, dec, U2, 2, U4, 4, U2, 5, U2, 2);
batch_case!(t_ige_dec_b3_w3_n4, 48, ige::Decryptor, dec, U3, 3, U6, 6, U3, 4, U3, 3);
batch_case!(t_cfb_enc_b3_w3_n4, 48, cfb_mode::Encryptor, enc, U3, 3, U3, 3, U3, 4, U3, 3);
batch_case!(t_cfb_dec_b2_w2_n5, 48, cfb_mode::Decryptor, dec, U2, 2, U2, 2, U2, 5, U2, 2);
batch_case!(t_cfb_dec_b1_w4_n5, 48, cfb_mode::Decryptor, dec, U1, 1, U1, 1, U4, 5, U1, 1);
batch_case!(t_cfb_dec_b4_w3_n4, 64, cfb_mode::Decryptor, dec, U4, 4, U4, 4, U3, 4, U4, 4);
batch_case!(t_cfb8_enc_b3_w1_n5, 48, cfb8::Encryptor, enc, U3, 3, U3, 3, U1, 5, U1, 1);
batch_case!(t_cfb8_dec_b3_w3_n5, 48, cfb8::Decryptor, dec, U3, 3, U3, 3, U3, 5, U1, 1);
ofb_batch_case!(t_ofb_b3_w3_n5, 48, U3, 3, U3, 5);
ofb_batch_case!(t_ofb_b4_w2_n4, 64, U4, 4, U2, 4);
ks_batch_case!(t_ctr32le_b4_w3_n5, 64, mk_ctr32le, u32, true, U4, 4, U3, 5);
ks_batch_case!(t_ctr64be_b8_w2_n5, 64, mk_ctr64be, u64, true, U8, 8, U2, 5);
ks_batch_case!(t_ctr128be_b16_w2_n4, 80, mk_ctr128be, u128, true, U16, 16, U2, 4);
ks_batch_case!(t_ctr128le_b16_w3_n4, 80, mk_ctr128le, u128, true, U16, 16, U3, 4);
ks_batch_case!(t_belt_b16_w2_n4, 80, mk_belt, u128, true, U16, 16, U2, 4);
ks_batch_case!(t_belt_b16_w3_n4, 80, mk_belt, u128, true, U16, 16, U3, 4);
cts_width_case!(t_cts_cbc_cs1_enc_b2_w3_l9, 48, CbcCs1, enc, U2, 2, U3, 9);
cts_width_case!(t_cts_cbc_cs2_enc_b2_w2_l8, 48, CbcCs2, enc, U2, 2, U2, 8);
cts_width_case!(t_cts_cbc_cs2_dec_b2_w3_l9, 48, CbcCs2, dec, U2, 2, U3, 9);
cts_width_case!(t_cts_cbc_cs3_dec_b2_w2_l10, 48, CbcCs3, dec, U2, 2, U2, 10);
cts_width_case!(t_cts_ecb_cs1_enc_b2_w3_l9, 48, EcbCs1, enc, U2, 2, U3, 9);
cts_width_case!(t_cts_ecb_cs1_dec_b2_w2_l10, 48, EcbCs1, dec, U2, 2, U2, 10);
cts_width_case!(t_cts_ecb_cs2_dec_b2_w3_l9, 48, EcbCs2, dec, U2, 2, U3, 9);
cts_width_case!(t_cts_ecb_cs3_enc_b2_w2_l9, 48, EcbCs3, enc, U2, 2, U2, 9);
cts_width_case!(t_cts_cbc_cs3_enc_b4_w4_l23, 64, CbcCs3, enc, U4, 4, U4, 23);
cts_width_case!(t_cts_ecb_cs3_dec_b4_w4_l24, 64, EcbCs3, dec, U4, 4, U4, 24);
