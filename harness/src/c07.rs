//! C07: output and chaining state are independent of how the blocks are batched into calls and of
//! the cipher backend's parallel width.
//!
//! Inductive step (decides every composition): from an ARBITRARY chaining state (symbolic IV /
//! counter position) one multi-block call of k blocks, k symbolic in [0, K], on a width-w cipher
//! produces exactly what k single-block calls on a width-1 cipher produce and leaves exactly the
//! state those leave.  Any composition (k_1..k_m) then reduces to single-block calls piece by
//! piece.  (That the state exported here is the complete state is C09; that in-place, b2b and
//! inout forms agree is C12.)
//! Bounded confirmation (thorough): three pieces at symbolic cut points through three call kinds.
use crate::prelude::*;
use cipher::inout::InOutBuf;

macro_rules! batch_case {
    ($name:ident, $unw:expr, $ty:ident :: $t2:ident, $dir:ident, $bs:ty, $b:expr, $ivbs:ty, $ivlen:expr, $par:ty, $n:expr, $mbs:ty, $mb:expr) => {
        #[kani::proof]
        #[kani::unwind($unw)]
        pub fn $name() {
            const MB: usize = $mb;
            const N: usize = $n;
            const L: usize = MB * N;
            let key: [u8; 2] = kani::any();
            let iv: [u8; $ivlen] = kani::any();
            let input: [u8; L] = kani::any();
            // reference: one block per call, width 1; state recorded after every block
            let c1 = Uf::<$bs, U1>::with_key(key);
            let mut m1 = $ty::$t2::inner_iv_init(c1, blk::<$ivbs>(&iv));
            let mut r = input;
            let mut st_ref = [[0u8; $ivlen]; N + 1];
            st_ref[0].copy_from_slice(&m1.iv_state());
            {
                let bl = blocks_mut::<$mbs>(&mut r);
                let mut i = 0;
                while i < N {
                    do_block!($dir, m1, &mut bl[i]);
                    st_ref[i + 1].copy_from_slice(&m1.iv_state());
                    i += 1;
                }
            }
            // subject: ONE call of k blocks (b2b into a dirty buffer), width w
            let k: usize = kani::any();
            kani::assume(k <= N);
            let dirty: [u8; L] = kani::any();
            let mut out = dirty;
            let mut st2 = [0u8; $ivlen];
            split_on!(k, 0, N, k_ => {
                let cw = Uf::<$bs, $par>::with_key(key);
                let mut m2 = $ty::$t2::inner_iv_init(cw, blk::<$ivbs>(&iv));
                assert!(do_blocks_b2b!($dir, m2, &blocks::<$mbs>(&input)[..k_], &mut blocks_mut::<$mbs>(&mut out)[..k_]).is_ok());
                st2.copy_from_slice(&m2.iv_state());
            });
            let mut i = 0;
            while i < L {
                if i < k * MB {
                    assert!(out[i] == r[i], "a multi-block call differs from single-block calls");
                } else {
                    assert!(out[i] == dirty[i], "bytes beyond the processed blocks modified");
                }
                i += 1;
            }
            let mut j = 0;
            while j < $ivlen {
                assert!(st2[j] == st_ref[k][j], "chaining state after a multi-block call differs from single-block calls");
                j += 1;
            }
            kani::cover!(k == N);
            kani::cover!(k == 0);
            kani::cover!(k == 1);
        }
    };
}

/// Keystream cores: one apply_keystream_blocks call of k blocks (width w) == k single-block calls
/// (width 1) from an arbitrary position; position afterwards equal.
macro_rules! ks_batch_case {
    ($name:ident, $unw:expr, $mk:expr, $ct:ty, $bs:ty, $b:expr, $par:ty, $n:expr) => {
        #[kani::proof]
        #[kani::unwind($unw)]
        pub fn $name() {
            const B: usize = $b;
            const N: usize = $n;
            const L: usize = B * N;
            let key: [u8; 2] = kani::any();
            let iv: [u8; B] = kani::any();
            let input: [u8; L] = kani::any();
            let pos: $ct = kani::any();
            kani::assume(pos <= <$ct>::MAX - N as $ct);
            let c1 = UfE::<$bs, U1>::with_key(key);
            let mut m1 = $mk(c1, blk::<$bs>(&iv));
            m1.set_block_pos(pos as _);
            let mut r = input;
            for blk in blocks_mut::<$bs>(&mut r).iter_mut() {
                m1.apply_keystream_blocks(core::slice::from_mut(blk));
            }
            let k: usize = kani::any();
            kani::assume(k <= N);
            let dirty: [u8; L] = kani::any();
            let mut out = dirty;
            let mut pos2 = pos;
            split_on!(k, 0, N, k_ => {
                let cw = UfE::<$bs, $par>::with_key(key);
                let mut m2 = $mk(cw, blk::<$bs>(&iv));
                m2.set_block_pos(pos as _);
                m2.apply_keystream_blocks_inout(InOutBuf::new(&blocks::<$bs>(&input)[..k_], &mut blocks_mut::<$bs>(&mut out)[..k_]).unwrap());
                pos2 = m2.get_block_pos() as $ct;
            });
            let mut i = 0;
            while i < L {
                if i < k * B {
                    assert!(out[i] == r[i], "a multi-block keystream call differs from single-block calls");
                } else {
                    assert!(out[i] == dirty[i]);
                }
                i += 1;
            }
            assert!(pos2 == pos + k as $ct, "position after a multi-block call");
            kani::cover!(k == N);
            kani::cover!(k == 0);
        }
    };
}

macro_rules! batch3_case {
    ($name:ident, $unw:expr, $ty:ident :: $t2:ident, $dir:ident, $bs:ty, $b:expr, $ivbs:ty, $ivlen:expr, $par:ty, $n:expr, $mbs:ty, $mb:expr) => {
        // $mbs/$mb: the mode's own block size (== cipher's, except CFB-8 where it is U1/1)
        #[kani::proof]
        #[kani::unwind($unw)]
        pub fn $name() {
            const MB: usize = $mb;
            const N: usize = $n;
            const L: usize = MB * N;
            let key: [u8; 2] = kani::any();
            let iv: [u8; $ivlen] = kani::any();
            let input: [u8; L] = kani::any();
            // (a) reference: one block per call, width 1
            let c1 = Uf::<$bs, U1>::with_key(key);
            let mut m1 = $ty::$t2::inner_iv_init(c1, blk::<$ivbs>(&iv));
            let mut r = input;
            for blk in blocks_mut::<$mbs>(&mut r).iter_mut() {
                do_block!($dir, m1, blk);
            }
            let st1 = m1.iv_state();
            // (b) subject: three pieces at symbolic cut points, width w (case split per cut pair)
            let k1: usize = kani::any();
            let k2: usize = kani::any();
            kani::assume(k1 <= k2 && k2 <= N);
            let dirty: [u8; L] = kani::any();
            let mut out = dirty;
            let mut st2 = [0u8; $ivlen];
            split_on!(k1, 0, N, a_ => {
                split_on!(k2, a_, N, b_ => {
                    let cw = Uf::<$bs, $par>::with_key(key);
                    let mut m2 = $ty::$t2::inner_iv_init(cw, blk::<$ivbs>(&iv));
                    let ib = blocks::<$mbs>(&input);
                    let ob = blocks_mut::<$mbs>(&mut out);
                    let (i1, irest) = ib.split_at(a_);
                    let (i2, i3) = irest.split_at(b_ - a_);
                    let (o1, orest) = ob.split_at_mut(a_);
                    let (o2, o3) = orest.split_at_mut(b_ - a_);
                    assert!(do_blocks_b2b!($dir, m2, i1, o1).is_ok());
                    do_blocks_inout!($dir, m2, InOutBuf::new(i2, o2).unwrap());
                    if i3.len() == 1 {
                        do_block_b2b!($dir, m2, &i3[0], &mut o3[0]);
                    } else {
                        o3.clone_from_slice(i3);
                        do_blocks!($dir, m2, o3);
                    }
                    st2.copy_from_slice(&m2.iv_state());
                });
            });
            let mut i = 0;
            while i < L {
                assert!(out[i] == r[i], "output depends on batching / parallel width");
                i += 1;
            }
            let mut j = 0;
            while j < $ivlen {
                assert!(st1[j] == st2[j], "chaining state depends on batching / parallel width");
                j += 1;
            }
            kani::cover!(k1 == 1 && k2 == N - 1);
            kani::cover!(k1 == 0 && k2 == N);
            kani::cover!(k2 == N - 1);
        }
    };
}

/// Keystream cores (CTR flavours, BelT-CTR, OFB): pieces through apply_keystream_blocks (in place),
/// apply_keystream_blocks_inout and write_keystream_blocks; reference = one block per call, width 1.
macro_rules! ks_batch3_case {
    ($name:ident, $unw:expr, $mk:expr, $ct:ty, $seek:expr, $bs:ty, $b:expr, $par:ty, $n:expr) => {
        #[kani::proof]
        #[kani::unwind($unw)]
        pub fn $name() {
            const B: usize = $b;
            const N: usize = $n;
            const L: usize = B * N;
            let key: [u8; 2] = kani::any();
            let iv: [u8; B] = kani::any();
            let input: [u8; L] = kani::any();
            let pos: $ct = kani::any();
            kani::assume(pos <= <$ct>::MAX - N as $ct);
            let c1 = UfE::<$bs, U1>::with_key(key);
            let mut m1 = $mk(c1, blk::<$bs>(&iv));
            if $seek { m1.set_block_pos(pos as _); }
            let mut r = input;
            for blk in blocks_mut::<$bs>(&mut r).iter_mut() {
                m1.apply_keystream_blocks(core::slice::from_mut(blk));
            }
            let k1: usize = kani::any();
            let k2: usize = kani::any();
            kani::assume(k1 <= k2 && k2 <= N);
            let dirty: [u8; L] = kani::any();
            let mut out = dirty;
            let mut pos2 = m1.get_block_pos();
            let mut pos2_set = false;
            split_on!(k1, 0, N, a_ => {
                split_on!(k2, a_, N, b_ => {
                    let cw = UfE::<$bs, $par>::with_key(key);
                    let mut m2 = $mk(cw, blk::<$bs>(&iv));
                    if $seek { m2.set_block_pos(pos as _); }
                    let ib = blocks::<$bs>(&input);
                    let ob = blocks_mut::<$bs>(&mut out);
                    let (i1, irest) = ib.split_at(a_);
                    let (i2, i3) = irest.split_at(b_ - a_);
                    let (o1, orest) = ob.split_at_mut(a_);
                    let (o2, o3) = orest.split_at_mut(b_ - a_);
                    o1.clone_from_slice(i1);
                    m2.apply_keystream_blocks(o1);
                    m2.apply_keystream_blocks_inout(InOutBuf::new(i2, o2).unwrap());
                    // piece 3: raw keystream, XORed by the harness
                    m2.write_keystream_blocks(o3);
                    let mut a = 0;
                    while a < o3.len() {
                        let mut j = 0;
                        while j < B {
                            o3[a][j] ^= i3[a][j];
                            j += 1;
                        }
                        a += 1;
                    }
                    pos2 = m2.get_block_pos();
                    pos2_set = true;
                });
            });
            let mut i = 0;
            while i < L {
                assert!(out[i] == r[i], "keystream depends on batching / parallel width");
                i += 1;
            }
            assert!(pos2_set && m1.get_block_pos() == pos2, "position depends on batching");
            kani::cover!(k1 == 1 && k2 == N - 1);
            kani::cover!(k1 == 0 && k2 == N);
        }
    };
}

/// OFB has no seek; same shape without position.
macro_rules! ofb_batch3_case {
    ($name:ident, $unw:expr, $bs:ty, $b:expr, $par:ty, $n:expr) => {
        #[kani::proof]
        #[kani::unwind($unw)]
        pub fn $name() {
            const B: usize = $b;
            const N: usize = $n;
            const L: usize = B * N;
            let key: [u8; 2] = kani::any();
            let iv: [u8; B] = kani::any();
            let input: [u8; L] = kani::any();
            let c1 = UfE::<$bs, U1>::with_key(key);
            let mut m1 = ofb::OfbCore::inner_iv_init(c1, blk::<$bs>(&iv));
            let mut r = input;
            for blk in blocks_mut::<$bs>(&mut r).iter_mut() {
                m1.encrypt_block(blk);
            }
            let k1: usize = kani::any();
            let k2: usize = kani::any();
            kani::assume(k1 <= k2 && k2 <= N);
            let dirty: [u8; L] = kani::any();
            let mut out = dirty;
            let mut s2 = [0u8; B];
            split_on!(k1, 0, N, a_ => {
                split_on!(k2, a_, N, b_ => {
                    let cw = UfE::<$bs, $par>::with_key(key);
                    let mut m2 = ofb::OfbCore::inner_iv_init(cw, blk::<$bs>(&iv));
                    let ib = blocks::<$bs>(&input);
                    let ob = blocks_mut::<$bs>(&mut out);
                    let (i1, irest) = ib.split_at(a_);
                    let (i2, i3) = irest.split_at(b_ - a_);
                    let (o1, orest) = ob.split_at_mut(a_);
                    let (o2, o3) = orest.split_at_mut(b_ - a_);
                    assert!(m2.decrypt_blocks_b2b(i1, o1).is_ok());
                    m2.apply_keystream_blocks_inout(InOutBuf::new(i2, o2).unwrap());
                    o3.clone_from_slice(i3);
                    m2.encrypt_blocks(o3);
                    s2.copy_from_slice(&m2.iv_state());
                });
            });
            let mut i = 0;
            while i < L {
                assert!(out[i] == r[i], "OFB output depends on batching / face / width");
                i += 1;
            }
            let s1 = m1.iv_state();
            let mut j = 0;
            while j < B {
                assert!(s1[j] == s2[j]);
                j += 1;
            }
            kani::cover!(k1 == 1 && k2 == N - 1);
        }
    };
}

/// CTS one-shot calls on a long message: result independent of the cipher's width.
macro_rules! cts_width_case {
    ($name:ident, $unw:expr, $ty:ident, $dir:ident, $bs:ty, $b:expr, $par:ty, $l:expr) => {
        #[kani::proof]
        #[kani::unwind($unw)]
        pub fn $name() {
            use cts::{Decrypt, Encrypt};
            const B: usize = $b;
            const L: usize = $l;
            let key: [u8; 2] = kani::any();
            let iv: [u8; B] = kani::any();
            let input: [u8; L] = kani::any();
            let mut a = input;
            let mut b = input;
            let ra = do_oneshot!($dir, crate::common::mk::$ty(Uf::<$bs, U1>::with_key(key), &iv), &mut a);
            let rb = do_oneshot!($dir, crate::common::mk::$ty(Uf::<$bs, $par>::with_key(key), &iv), &mut b);
            assert!(ra.is_ok() && rb.is_ok());
            let mut i = 0;
            while i < L {
                assert!(a[i] == b[i], "CTS result depends on the cipher's parallel width");
                i += 1;
            }
            kani::cover!(true);
        }
    };
}

fn mk_ctr32be<C: cipher::BlockCipherEncrypt<BlockSize = U4>>(c: C, iv: &Array<u8, U4>) -> ctr::CtrCore<C, ctr::flavors::Ctr32BE> { ctr::CtrCore::inner_iv_init(c, iv) }
fn mk_ctr64le<C: cipher::BlockCipherEncrypt<BlockSize = U8>>(c: C, iv: &Array<u8, U8>) -> ctr::CtrCore<C, ctr::flavors::Ctr64LE> { ctr::CtrCore::inner_iv_init(c, iv) }
fn mk_ctr128be<C: cipher::BlockCipherEncrypt<BlockSize = U16>>(c: C, iv: &Array<u8, U16>) -> ctr::CtrCore<C, ctr::flavors::Ctr128BE> { ctr::CtrCore::inner_iv_init(c, iv) }
fn mk_ctr32le<C: cipher::BlockCipherEncrypt<BlockSize = U4>>(c: C, iv: &Array<u8, U4>) -> ctr::CtrCore<C, ctr::flavors::Ctr32LE> { ctr::CtrCore::inner_iv_init(c, iv) }
fn mk_ctr64be<C: cipher::BlockCipherEncrypt<BlockSize = U8>>(c: C, iv: &Array<u8, U8>) -> ctr::CtrCore<C, ctr::flavors::Ctr64BE> { ctr::CtrCore::inner_iv_init(c, iv) }
fn mk_ctr128le<C: cipher::BlockCipherEncrypt<BlockSize = U16>>(c: C, iv: &Array<u8, U16>) -> ctr::CtrCore<C, ctr::flavors::Ctr128LE> { ctr::CtrCore::inner_iv_init(c, iv) }
fn mk_belt<C: cipher::BlockCipherEncrypt<BlockSize = U16>>(c: C, iv: &Array<u8, U16>) -> belt_ctr::BeltCtrCore<C> { belt_ctr::BeltCtrCore::inner_iv_init(c, iv) }

// ---- quick: inductive step, K=5 (w=2: two full groups + tail; w=3: group + tail of 2; w=4: group + 1)
batch_case!(cbc_enc_b2_w2_k5, 48, cbc::Encryptor, enc, U2, 2, U2, 2, U2, 5, U2, 2);
batch_case!(cbc_dec_b2_w2_k5, 48, cbc::Decryptor, dec, U2, 2, U2, 2, U2, 5, U2, 2);
batch_case!(cbc_dec_b2_w3_k5, 48, cbc::Decryptor, dec, U2, 2, U2, 2, U3, 5, U2, 2);
batch_case!(pcbc_enc_b2_w3_k5, 48, pcbc::Encryptor, enc, U2, 2, U2, 2, U3, 5, U2, 2);
batch_case!(pcbc_dec_b2_w2_k5, 48, pcbc::Decryptor, dec, U2, 2, U2, 2, U2, 5, U2, 2);
batch_case!(ige_enc_b2_w2_k5, 48, ige::Encryptor, enc, U2, 2, U4, 4, U2, 5, U2, 2);
batch_case!(ige_dec_b2_w3_k5, 48, ige::Decryptor, dec, U2, 2, U4, 4, U3, 5, U2, 2);
batch_case!(cfb_enc_b2_w2_k5, 48, cfb_mode::Encryptor, enc, U2, 2, U2, 2, U2, 5, U2, 2);
batch_case!(cfb_dec_b2_w2_k5, 48, cfb_mode::Decryptor, dec, U2, 2, U2, 2, U2, 5, U2, 2);
batch_case!(cfb_dec_b2_w3_k5, 48, cfb_mode::Decryptor, dec, U2, 2, U2, 2, U3, 5, U2, 2);
batch_case!(cfb8_enc_b2_w2_k4, 48, cfb8::Encryptor, enc, U2, 2, U2, 2, U2, 4, U1, 1);
batch_case!(cfb8_dec_b2_w2_k4, 48, cfb8::Decryptor, dec, U2, 2, U2, 2, U2, 4, U1, 1);
batch_case!(cfb8_dec_b2_w4_k9, 48, cfb8::Decryptor, dec, U2, 2, U2, 2, U4, 9, U1, 1); // cipher width > block size
batch_case!(cfb8_enc_b2_w4_k9, 48, cfb8::Encryptor, enc, U2, 2, U2, 2, U4, 9, U1, 1);
batch_case!(ofb_enc_b2_w2_k5, 48, ofb::OfbCore, enc, U2, 2, U2, 2, U2, 5, U2, 2);
batch_case!(ofb_dec_b2_w3_k5, 48, ofb::OfbCore, dec, U2, 2, U2, 2, U3, 5, U2, 2);
ks_batch_case!(ctr32be_b4_w2_k5, 48, mk_ctr32be, u32, U4, 4, U2, 5);
ks_batch_case!(ctr64le_b8_w3_k5, 64, mk_ctr64le, u64, U8, 8, U3, 5);
ks_batch_case!(ctr128be_b16_w2_k3, 80, mk_ctr128be, u128, U16, 16, U2, 3);
ks_batch_case!(belt_b16_w2_k3, 80, mk_belt, u128, U16, 16, U2, 3);
cts_width_case!(cts_cbc_cs3_enc_b2_w3_l9, 48, CbcCs3, enc, U2, 2, U3, 9);
cts_width_case!(cts_cbc_cs1_dec_b2_w2_l9, 48, CbcCs1, dec, U2, 2, U2, 9);
cts_width_case!(cts_ecb_cs2_enc_b2_w2_l9, 48, EcbCs2, enc, U2, 2, U2, 9);
cts_width_case!(cts_ecb_cs3_dec_b2_w3_l10, 48, EcbCs3, dec, U2, 2, U3, 10);

// ---- thorough: other block sizes / widths for the step; three-piece bounded confirmations -----
batch_case!(t_cbc_enc_b4_w3_k5, 64, cbc::Encryptor, enc, U4, 4, U4, 4, U3, 5, U4, 4);
batch_case!(t_cbc_dec_b1_w4_k6, 48, cbc::Decryptor, dec, U1, 1, U1, 1, U4, 6, U1, 1);
batch_case!(t_cbc_dec_b4_w2_k5, 64, cbc::Decryptor, dec, U4, 4, U4, 4, U2, 5, U4, 4);
batch_case!(t_cbc_dec_b1_w8_k9, 64, cbc::Decryptor, dec, U1, 1, U1, 1, U8, 9, U1, 1);
batch_case!(t_pcbc_enc_b2_w2_k5, 48, pcbc::Encryptor, enc, U2, 2, U2, 2, U2, 5, U2, 2);
batch_case!(t_pcbc_dec_b2_w4_k6, 48, pcbc::Decryptor, dec, U2, 2, U2, 2, U4, 6, U2, 2);
batch_case!(t_pcbc_dec_b3_w3_k5, 48, pcbc::Decryptor, dec, U3, 3, U3, 3, U3, 5, U3, 3);
batch_case!(t_ige_enc_b2_w4_k6, 48, ige::Encryptor, enc, U2, 2, U4, 4, U4, 6, U2, 2);
batch_case!(t_ige_dec_b2_w2_k5, 48, ige::Decryptor, dec, U2, 2, U4, 4, U2, 5, U2, 2);
batch_case!(t_ige_dec_b3_w3_k5, 48, ige::Decryptor, dec, U3, 3, U6, 6, U3, 5, U3, 3);
batch_case!(t_cfb_enc_b3_w3_k5, 48, cfb_mode::Encryptor, enc, U3, 3, U3, 3, U3, 5, U3, 3);
batch_case!(t_cfb_dec_b1_w4_k6, 48, cfb_mode::Decryptor, dec, U1, 1, U1, 1, U4, 6, U1, 1);
batch_case!(t_cfb_dec_b4_w3_k5, 64, cfb_mode::Decryptor, dec, U4, 4, U4, 4, U3, 5, U4, 4);
batch_case!(t_cfb_dec_b1_w8_k9, 64, cfb_mode::Decryptor, dec, U1, 1, U1, 1, U8, 9, U1, 1);
batch_case!(t_cfb8_enc_b3_w1_k5, 48, cfb8::Encryptor, enc, U3, 3, U3, 3, U1, 5, U1, 1);
batch_case!(t_cfb8_dec_b3_w3_k5, 48, cfb8::Decryptor, dec, U3, 3, U3, 3, U3, 5, U1, 1);
batch_case!(t_ofb_enc_b3_w3_k5, 48, ofb::OfbCore, enc, U3, 3, U3, 3, U3, 5, U3, 3);
ks_batch_case!(t_ctr32le_b4_w3_k5, 64, mk_ctr32le, u32, U4, 4, U3, 5);
ks_batch_case!(t_ctr64be_b8_w2_k5, 64, mk_ctr64be, u64, U8, 8, U2, 5);
ks_batch_case!(t_ctr128le_b16_w3_k4, 80, mk_ctr128le, u128, U16, 16, U3, 4);
ks_batch_case!(t_belt_b16_w3_k4, 80, mk_belt, u128, U16, 16, U3, 4);
batch3_case!(t_p3_cbc_dec_b2_w3_n4, 48, cbc::Decryptor, dec, U2, 2, U2, 2, U3, 4, U2, 2);
batch3_case!(t_p3_pcbc_enc_b2_w3_n4, 48, pcbc::Encryptor, enc, U2, 2, U2, 2, U3, 4, U2, 2);
batch3_case!(t_p3_ige_dec_b2_w2_n4, 48, ige::Decryptor, dec, U2, 2, U4, 4, U2, 4, U2, 2);
batch3_case!(t_p3_cfb_dec_b2_w2_n4, 48, cfb_mode::Decryptor, dec, U2, 2, U2, 2, U2, 4, U2, 2);
batch3_case!(t_p3_cfb8_enc_b2_w2_n4, 48, cfb8::Encryptor, enc, U2, 2, U2, 2, U2, 4, U1, 1);
ofb_batch3_case!(t_p3_ofb_b2_w2_n4, 48, U2, 2, U2, 4);
ks_batch3_case!(t_p3_ctr32be_b4_w2_n4, 48, mk_ctr32be, u32, true, U4, 4, U2, 4);
ks_batch3_case!(t_p3_belt_b16_w2_n3, 80, mk_belt, u128, true, U16, 16, U2, 3);
cts_width_case!(t_cts_cbc_cs1_enc_b2_w3_l9, 48, CbcCs1, enc, U2, 2, U3, 9);
cts_width_case!(t_cts_cbc_cs2_enc_b2_w2_l8, 48, CbcCs2, enc, U2, 2, U2, 8);
cts_width_case!(t_cts_cbc_cs2_dec_b2_w3_l9, 48, CbcCs2, dec, U2, 2, U3, 9);
cts_width_case!(t_cts_cbc_cs3_dec_b2_w2_l10, 48, CbcCs3, dec, U2, 2, U2, 10);
cts_width_case!(t_cts_ecb_cs1_enc_b2_w3_l9, 48, EcbCs1, enc, U2, 2, U3, 9);
cts_width_case!(t_cts_ecb_cs1_dec_b2_w2_l10, 48, EcbCs1, dec, U2, 2, U2, 10);
cts_width_case!(t_cts_ecb_cs2_dec_b2_w3_l9, 48, EcbCs2, dec, U2, 2, U3, 9);
cts_width_case!(t_cts_ecb_cs3_enc_b2_w2_l9, 48, EcbCs3, enc, U2, 2, U2, 9);
cts_width_case!(t_cts_cbc_cs3_enc_b4_w4_l23, 64, CbcCs3, enc, U4, 4, U4, 23);
cts_width_case!(t_cts_ecb_cs3_dec_b4_w4_l24, 64, EcbCs3, dec, U4, 4, U4, 24);
