//! Slot for generated concrete-playback tests (written by bin/check.py, git-ignored).
#[allow(unused_imports)]
use crate::*;
include!("replay_gen.rs");
