//! C08: byte-stream interfaces give the same bytes however the stream is cut into calls.
//!
//! Inductive step for the keystream wrappers: (arbitrary core state) -> piece 1 of length a
//! (establishes an arbitrary reachable wrapper state: cursor anywhere in [0, b], empty piece
//! included) -> piece 2 of SYMBOLIC length n; the concatenation must equal the keystream
//! specification XOR and nothing beyond may be touched.
//! Inductive step for buffered CFB: state constructed directly with from_state(any block, any
//! pos < b); one call of symbolic length must equal that many steps of the per-byte reference
//! machine, including the exported (block, pos).
use crate::prelude::*;

/// apply two pieces (a concrete or symbolic, n symbolic <= NMAX) and compare with ks.
/// `$mk` builds the object in its initial state; it is rebuilt inside every branch of the case
/// split, because an object mutated in one branch would reach the next branch in a merged
/// (symbolic-cursor) state.
macro_rules! two_pieces_tail {
    ($mk:expr, $ks:ident, $a:expr, $amax:expr, $nmax:expr) => {{
        const M: usize = $amax + $nmax + 1;
        let a: usize = $a;
        let n: usize = kani::any();
        kani::assume(n <= $nmax);
        let msg: [u8; M] = kani::any();
        let mut buf = msg;
        split_on!(a, 0, $amax, a_ => {
            split_on!(n, 0, $nmax, n_ => {
                let mut s = $mk;
                let (p1, rest) = buf.split_at_mut(a_);
                s.try_apply_keystream(p1).unwrap();
                s.try_apply_keystream(&mut rest[..n_]).unwrap();
            });
        });
        let mut i = 0;
        while i < M {
            if i < a + n {
                assert!(buf[i] == msg[i] ^ $ks[i], "bytes depend on how the stream was cut");
            } else {
                assert!(buf[i] == msg[i], "byte beyond the request modified");
            }
            i += 1;
        }
        kani::cover!(n == $nmax);
        kani::cover!(n == 0);
    }};
}

/// fully concrete three-piece geometry (everything else symbolic)
macro_rules! three_pieces_tail {
    ($s:ident, $ks:ident, $n1:expr, $n2:expr, $n3:expr) => {{
        const M: usize = $n1 + $n2 + $n3 + 1;
        let msg: [u8; M] = kani::any();
        let mut buf = msg;
        {
            let (p1, rest) = buf.split_at_mut($n1);
            let (p2, rest) = rest.split_at_mut($n2);
            $s.try_apply_keystream(p1).unwrap();
            $s.try_apply_keystream(p2).unwrap();
            $s.try_apply_keystream(&mut rest[..$n3]).unwrap();
        }
        let mut i = 0;
        while i < M - 1 {
            assert!(buf[i] == msg[i] ^ $ks[i], "bytes depend on how the stream was cut");
            i += 1;
        }
        assert!(buf[M - 1] == msg[M - 1], "byte beyond the request modified");
        kani::cover!(true);
    }};
}

macro_rules! ofb_two {
    ($name:ident, $unw:expr, $bs:ty, $b:expr, $par:ty, $amax:expr, $nmax:expr) => {
        #[kani::proof]
        #[kani::unwind($unw)]
        pub fn $name() {
            const B: usize = $b;
            const NB: usize = ($amax + $nmax + B) / B;
            let iv: [u8; B] = kani::any();
            let c = UfE::<$bs, $par>::with_key(kani::any());
            let mut ks = [0u8; NB * B];
            spec::ofb_ks(c.p(), &iv, &mut ks);
            let a: usize = $amax; // piece 1 concrete (enumerated by instantiation), piece 2 symbolic
            two_pieces_tail!(StreamCipherCoreWrapper::from_core(ofb::OfbCore::inner_iv_init(c.clone(), blk::<$bs>(&iv))), ks, a, $amax, $nmax);
        }
    };
}
macro_rules! ofb_three {
    ($name:ident, $unw:expr, $bs:ty, $b:expr, $par:ty, $n1:expr, $n2:expr, $n3:expr) => {
        #[kani::proof]
        #[kani::unwind($unw)]
        pub fn $name() {
            const B: usize = $b;
            const NB: usize = ($n1 + $n2 + $n3 + B) / B;
            let iv: [u8; B] = kani::any();
            let c = UfE::<$bs, $par>::with_key(kani::any());
            let mut ks = [0u8; NB * B];
            spec::ofb_ks(c.p(), &iv, &mut ks);
            let mut s = StreamCipherCoreWrapper::from_core(ofb::OfbCore::inner_iv_init(c.clone(), blk::<$bs>(&iv)));
            three_pieces_tail!(s, ks, $n1, $n2, $n3);
        }
    };
}

/// CTR flavour at an arbitrary block position; piece 1 concrete (A), piece 2 symbolic.
macro_rules! ctr_two {
    ($name:ident, $unw:expr, $flavor:ident, $spec:expr, $ct:ty, $bs:ty, $b:expr, $par:ty, $a:expr, $nmax:expr) => {
        #[kani::proof]
        #[kani::unwind($unw)]
        pub fn $name() {
            const B: usize = $b;
            const NB: usize = ($a + $nmax + B) / B;
            let iv: [u8; B] = kani::any();
            // concrete block position: a symbolic one makes the wrapper's `blocks > remaining` test a
            // symbolic branch whose early return is merged into every later call (cost x20); the
            // core is position-independent for every position by C04 and `remaining` is C11
            let pos: $ct = <$ct>::MAX / 3;
            let c = UfE::<$bs, $par>::with_key(kani::any());
            let mut ks = [0u8; NB * B];
            spec::ctr_ks(c.p(), $spec, &iv, pos as u128, &mut ks);
            two_pieces_tail!({
                let mut core = ctr::CtrCore::<_, ctr::flavors::$flavor>::inner_iv_init(c.clone(), blk::<$bs>(&iv));
                core.set_block_pos(pos as _);
                StreamCipherCoreWrapper::from_core(core)
            }, ks, $a, $a, $nmax);
        }
    };
}
macro_rules! ctr_three {
    ($name:ident, $unw:expr, $flavor:ident, $spec:expr, $ct:ty, $bs:ty, $b:expr, $par:ty, $n1:expr, $n2:expr, $n3:expr) => {
        #[kani::proof]
        #[kani::unwind($unw)]
        pub fn $name() {
            const B: usize = $b;
            const NB: usize = ($n1 + $n2 + $n3 + B) / B;
            let iv: [u8; B] = kani::any();
            // concrete block position: a symbolic one makes the wrapper's `blocks > remaining` test a
            // symbolic branch whose early return is merged into every later call (cost x20); the
            // core is position-independent for every position by C04 and `remaining` is C11
            let pos: $ct = <$ct>::MAX / 3;
            let c = UfE::<$bs, $par>::with_key(kani::any());
            let mut ks = [0u8; NB * B];
            spec::ctr_ks(c.p(), $spec, &iv, pos as u128, &mut ks);
            let mut core = ctr::CtrCore::<_, ctr::flavors::$flavor>::inner_iv_init(c.clone(), blk::<$bs>(&iv));
            core.set_block_pos(pos as _);
            let mut s = StreamCipherCoreWrapper::from_core(core);
            three_pieces_tail!(s, ks, $n1, $n2, $n3);
        }
    };
}
macro_rules! belt_three {
    ($name:ident, $unw:expr, $par:ty, $n1:expr, $n2:expr, $n3:expr) => {
        #[kani::proof]
        #[kani::unwind($unw)]
        pub fn $name() {
            const B: usize = 16;
            const NB: usize = ($n1 + $n2 + $n3 + B) / B;
            let iv: [u8; B] = kani::any();
            let pos: u128 = u128::MAX / 3; // concrete, see ctr_two
            let c = UfE::<U16, $par>::with_key(kani::any());
            let s0 = spec::belt_s0(c.p(), &iv);
            let mut ks = [0u8; NB * B];
            spec::belt_ks(c.p(), s0, pos, &mut ks);
            let mut core = crate::common::belt_core(c.clone(), &iv);
            core.set_block_pos(pos as _);
            let mut s = StreamCipherCoreWrapper::from_core(core);
            three_pieces_tail!(s, ks, $n1, $n2, $n3);
        }
    };
}

/// Buffered CFB inductive step.  An arbitrary REACHABLE state is established through the API only
/// (fresh object over a symbolic IV, then a first piece of A bytes with symbolic data: E(IV) ranges
/// over all blocks, so every (feedback block, position A mod b) is reached), exported with
/// get_state and re-imported with from_state (no assumption on what the exported pair looks
/// like), then ONE call of SYMBOLIC length n <= NMAX.  Output == CFB recurrence on the A+n bytes.
macro_rules! buf_step {
    ($name:ident, $unw:expr, $ty:ident, $call:ident, $enc:expr, $bs:ty, $b:expr, $a:expr, $nmax:expr) => {
        #[kani::proof]
        #[kani::unwind($unw)]
        pub fn $name() {
            const B: usize = $b;
            const A: usize = $a;
            const NMAX: usize = $nmax;
            const M: usize = A + NMAX;
            let c = UfE::<$bs, U1>::with_key(kani::any());
            let iv: [u8; B] = kani::any();
            let n: usize = kani::any();
            kani::assume(n <= NMAX);
            let data: [u8; M] = kani::any();
            let want = spec::cfb_symlen::<M>(c.p(), $enc, &iv, &data, A + n);
            let mut buf = data;
            split_on!(n, 0, NMAX, n_ => {
                let mut m0 = cfb_mode::$ty::inner_iv_init(c.clone(), blk::<$bs>(&iv));
                let (p1, rest) = buf.split_at_mut(A);
                m0.$call(p1);
                let (st, pos) = m0.get_state();
                let mut m = cfb_mode::$ty::from_state(c.clone(), st, pos);
                m.$call(&mut rest[..n_]);
            });
            let mut i = 0;
            while i < M {
                assert!(buf[i] == want[i], "buffered CFB differs from the CFB recurrence");
                i += 1;
            }
            kani::cover!(n == NMAX);
            kani::cover!(n == 0);
        }
    };
}

/// Buffered CFB from a fresh object: whole message in one call vs. two calls at a symbolic cut,
/// and vs. the CFB recurrence (ties the (block,pos) machine to the mode's definition).
macro_rules! buf_fresh {
    ($name:ident, $unw:expr, $ty:ident, $call:ident, $enc:expr, $bs:ty, $b:expr, $l:expr) => {
        #[kani::proof]
        #[kani::unwind($unw)]
        pub fn $name() {
            const B: usize = $b;
            const L: usize = $l;
            let c = UfE::<$bs, U1>::with_key(kani::any());
            let iv: [u8; B] = kani::any();
            let msg: [u8; L] = kani::any();
            let mut want = [0u8; L];
            spec::cfb(c.p(), $enc, &iv, &msg, &mut want);
            let k: usize = kani::any();
            kani::assume(k <= L);
            let mut buf = msg;
            split_on!(k, 0, L, k_ => {
                let mut m = cfb_mode::$ty::inner_iv_init(c.clone(), blk::<$bs>(&iv));
                let (p1, p2) = buf.split_at_mut(k_);
                m.$call(p1);
                m.$call(p2);
            });
            let mut i = 0;
            while i < L {
                assert!(buf[i] == want[i], "buffered CFB differs from the CFB recurrence");
                i += 1;
            }
            kani::cover!(k == B);
            kani::cover!(k == 0);
            kani::cover!(k == L);
        }
    };
}

/// One-shot CFB / CFB-8 are prefix-preserving: output on m[..k] == first k bytes of output on m.
macro_rules! prefix_case {
    ($name:ident, $unw:expr, $krate:ident, $ty:ident, $dir:ident, $bs:ty, $b:expr, $par:ty, $l:expr) => {
        #[kani::proof]
        #[kani::unwind($unw)]
        pub fn $name() {
            const B: usize = $b;
            const L: usize = $l;
            let c = UfE::<$bs, $par>::with_key(kani::any());
            let iv: [u8; B] = kani::any();
            let msg: [u8; L] = kani::any();
            let mut full = msg;
            do_oneshot!($dir, $krate::$ty::inner_iv_init(c.clone(), blk::<$bs>(&iv)), &mut full[..]);
            let k: usize = kani::any();
            kani::assume(k <= L);
            let mut part = msg;
            split_on!(k, 0, L, k_ => {
                do_oneshot!($dir, $krate::$ty::inner_iv_init(c.clone(), blk::<$bs>(&iv)), &mut part[..k_]);
            });
            let mut i = 0;
            while i < L {
                if i < k {
                    assert!(part[i] == full[i], "one-shot output is not prefix-preserving");
                } else {
                    assert!(part[i] == msg[i]);
                }
                i += 1;
            }
            kani::cover!(k == L - 1);
            kani::cover!(k == B);
        }
    };
}

/// Buffered CFB, fully concrete geometry: first piece of P0 bytes, then ONE call of N bytes; output
/// == CFB recurrence.  Cheap, so long calls (many whole blocks after a mid-block start) are covered.
macro_rules! buf_step_fixed {
    ($name:ident, $unw:expr, $ty:ident, $call:ident, $enc:expr, $bs:ty, $b:expr, $p0:expr, $n:expr) => {
        #[kani::proof]
        #[kani::unwind($unw)]
        pub fn $name() {
            const B: usize = $b;
            const L: usize = $p0 + $n;
            let c = UfE::<$bs, U2>::with_key(kani::any());
            let iv: [u8; B] = kani::any();
            let data: [u8; L] = kani::any();
            let mut want = [0u8; L];
            spec::cfb(c.p(), $enc, &iv, &data, &mut want);
            let mut m = cfb_mode::$ty::inner_iv_init(c.clone(), blk::<$bs>(&iv));
            let mut buf = data;
            {
                let (p1, p2) = buf.split_at_mut($p0);
                m.$call(p1);
                m.$call(p2);
            }
            let mut i = 0;
            while i < L {
                assert!(buf[i] == want[i], "buffered CFB differs from the CFB recurrence");
                i += 1;
            }
            kani::cover!(true);
        }
    };
}

// ---- quick ---------------------------------------------------------------------------------
ofb_three!(ofb_b1_w1_p16_1_2, 80, U1, 1, U1, 16, 1, 2); // a call of exactly 16 whole blocks, then more
ofb_two!(ofb_b2_w1_a3_n5, 48, U2, 2, U1, 3, 5);
ofb_two!(ofb_b2_w2_a2_n5, 48, U2, 2, U2, 2, 5);
ofb_two!(ofb_b4_w1_a1_n9, 48, U4, 4, U1, 1, 9);
ctr_two!(ctr32be_b4_w1_a3_n9, 48, Ctr32BE, spec::CTR32BE, u32, U4, 4, U1, 3, 9);
ctr_three!(ctr32be_b4_w2_p0_5_4, 48, Ctr32BE, spec::CTR32BE, u32, U4, 4, U2, 0, 5, 4);
ctr_three!(ctr32be_b4_w2_p4_0_9, 48, Ctr32BE, spec::CTR32BE, u32, U4, 4, U2, 4, 0, 9);
ctr_three!(ctr32le_b4_w2_p1_12_2, 48, Ctr32LE, spec::CTR32LE, u32, U4, 4, U2, 1, 12, 2); // 3 buffered + 2 whole blocks + 1
ctr_three!(ctr64be_b8_w2_p7_2_19, 64, Ctr64BE, spec::CTR64BE, u64, U8, 8, U2, 7, 2, 19); // 7 buffered... then 2 whole blocks + tail
ctr_three!(ctr64le_b8_w2_p8_8_1, 64, Ctr64LE, spec::CTR64LE, u64, U8, 8, U2, 8, 8, 1);
ctr_three!(ctr128be_b16_w2_p1_47_1, 100, Ctr128BE, spec::CTR128BE, u128, U16, 16, U2, 1, 47, 1); // 15 buffered + parallel group of 2
ctr_three!(t_ctr128be_b16_w1_p5_16_12, 80, Ctr128BE, spec::CTR128BE, u128, U16, 16, U1, 5, 16, 12);
ctr_three!(ctr128le_b16_w2_p0_33_2, 100, Ctr128LE, spec::CTR128LE, u128, U16, 16, U2, 0, 33, 2); // parallel group from a block boundary
ctr_three!(t_ctr128le_b16_w1_p15_2_17, 80, Ctr128LE, spec::CTR128LE, u128, U16, 16, U1, 15, 2, 17);
belt_three!(belt_w2_p3_50_1, 100, U2, 3, 50, 1); // middle piece: 13 buffered bytes + 2 whole blocks (parallel group) + 5
belt_three!(t_belt_w1_p3_13_17, 80, U1, 3, 13, 17);
buf_step!(buf_enc_step_b2_a0_n5, 48, BufEncryptor, encrypt, true, U2, 2, 0, 5);
buf_step!(buf_enc_step_b2_a1_n5, 48, BufEncryptor, encrypt, true, U2, 2, 1, 5);
buf_step!(buf_enc_step_b2_a2_n5, 48, BufEncryptor, encrypt, true, U2, 2, 2, 5);
buf_step!(buf_dec_step_b2_a0_n5, 48, BufDecryptor, decrypt, false, U2, 2, 0, 5);
buf_step!(buf_dec_step_b2_a1_n5, 48, BufDecryptor, decrypt, false, U2, 2, 1, 5);
buf_step!(buf_dec_step_b2_a2_n5, 48, BufDecryptor, decrypt, false, U2, 2, 2, 5);
buf_step_fixed!(buf_enc_long_b2_p1_n12, 48, BufEncryptor, encrypt, true, U2, 2, 1, 12);
buf_step_fixed!(buf_dec_long_b2_p1_n12, 48, BufDecryptor, decrypt, false, U2, 2, 1, 12);
buf_step_fixed!(buf_dec_long_b1_p0_n9, 48, BufDecryptor, decrypt, false, U1, 1, 0, 9);
buf_step_fixed!(buf_dec_long_b1_p1_n19, 64, BufDecryptor, decrypt, false, U1, 1, 1, 19);
buf_step_fixed!(buf_enc_long_b1_p1_n19, 64, BufEncryptor, encrypt, true, U1, 1, 1, 19);
buf_fresh!(buf_enc_fresh_b2_l5, 48, BufEncryptor, encrypt, true, U2, 2, 5);
buf_fresh!(buf_dec_fresh_b2_l5, 48, BufDecryptor, decrypt, false, U2, 2, 5);
prefix_case!(prefix_cfb_enc_b2_w2_l7, 48, cfb_mode, Encryptor, enc, U2, 2, U2, 7);
prefix_case!(prefix_cfb_dec_b2_w2_l7, 48, cfb_mode, Decryptor, dec, U2, 2, U2, 7);
prefix_case!(prefix_cfb8_enc_b2_l5, 48, cfb8, Encryptor, enc, U2, 2, U1, 5);
prefix_case!(prefix_cfb8_dec_b2_l5, 48, cfb8, Decryptor, dec, U2, 2, U1, 5);

// ---- thorough ------------------------------------------------------------------------------
ofb_two!(t_ofb_b4_w2_a5_n9, 64, U4, 4, U2, 5, 9);
ofb_three!(t_ofb_b4_w2_p3_0_7, 48, U4, 4, U2, 3, 0, 7);
ofb_three!(t_ofb_b1_w4_p32_1_1, 80, U1, 1, U4, 32, 1, 1);
ofb_three!(t_ofb_b2_w1_p32_2_1, 80, U2, 2, U1, 32, 2, 1);
ofb_three!(t_ofb_b3_w3_p2_4_4, 48, U3, 3, U3, 2, 4, 4);
ctr_two!(t_ctr32be_b4_w1_a0_n9, 48, Ctr32BE, spec::CTR32BE, u32, U4, 4, U1, 0, 9);
ctr_two!(t_ctr32be_b4_w1_a4_n9, 48, Ctr32BE, spec::CTR32BE, u32, U4, 4, U1, 4, 9);
ctr_two!(t_ctr32be_b4_w1_a5_n9, 48, Ctr32BE, spec::CTR32BE, u32, U4, 4, U1, 5, 9);
ctr_two!(t_ctr32le_b4_w1_a1_n9, 48, Ctr32LE, spec::CTR32LE, u32, U4, 4, U1, 1, 9);
ctr_two!(t_ctr64le_b8_w1_a7_n17, 80, Ctr64LE, spec::CTR64LE, u64, U8, 8, U1, 7, 17);
ctr_two!(t_ctr64be_b8_w1_a8_n17, 80, Ctr64BE, spec::CTR64BE, u64, U8, 8, U1, 8, 17);
ctr_three!(t_ctr128be_b16_w2_p16_1_33, 100, Ctr128BE, spec::CTR128BE, u128, U16, 16, U2, 16, 1, 33);
ctr_three!(t_ctr128le_b16_w2_p0_17_16, 100, Ctr128LE, spec::CTR128LE, u128, U16, 16, U2, 0, 17, 16);
belt_three!(t_belt_w2_p16_0_33, 100, U2, 16, 0, 33);
belt_three!(t_belt_w2_p15_18_1, 100, U2, 15, 18, 1);
buf_step!(t_buf_enc_step_b3_a1_n7, 48, BufEncryptor, encrypt, true, U3, 3, 1, 7);
buf_step!(t_buf_enc_step_b3_a2_n7, 48, BufEncryptor, encrypt, true, U3, 3, 2, 7);
buf_step!(t_buf_dec_step_b3_a1_n7, 48, BufDecryptor, decrypt, false, U3, 3, 1, 7);
buf_step!(t_buf_dec_step_b3_a3_n7, 48, BufDecryptor, decrypt, false, U3, 3, 3, 7);
buf_step!(t_buf_enc_step_b4_a3_n9, 48, BufEncryptor, encrypt, true, U4, 4, 3, 9);
buf_step!(t_buf_dec_step_b4_a1_n9, 48, BufDecryptor, decrypt, false, U4, 4, 1, 9);
buf_step_fixed!(t_buf_enc_long_b4_p3_n38, 64, BufEncryptor, encrypt, true, U4, 4, 3, 38);
buf_step_fixed!(t_buf_dec_long_b4_p1_n38, 64, BufDecryptor, decrypt, false, U4, 4, 1, 38);
buf_step_fixed!(t_buf_dec_long_b2_p0_n19, 48, BufDecryptor, decrypt, false, U2, 2, 0, 19);
buf_step!(t_buf_enc_step_b1_a1_n3, 48, BufEncryptor, encrypt, true, U1, 1, 1, 3);
buf_fresh!(t_buf_enc_fresh_b3_l7, 48, BufEncryptor, encrypt, true, U3, 3, 7);
buf_fresh!(t_buf_dec_fresh_b3_l7, 48, BufDecryptor, decrypt, false, U3, 3, 7);
prefix_case!(t_prefix_cfb_enc_b3_w2_l10, 48, cfb_mode, Encryptor, enc, U3, 3, U2, 10);
prefix_case!(t_prefix_cfb_dec_b3_w3_l10, 48, cfb_mode, Decryptor, dec, U3, 3, U3, 10);
prefix_case!(t_prefix_cfb8_enc_b3_l7, 48, cfb8, Encryptor, enc, U3, 3, U1, 7);
prefix_case!(t_prefix_cfb8_dec_b3_l7, 48, cfb8, Decryptor, dec, U3, 3, U1, 7);
