//! Kani harnesses deciding the properties of /verif/properties.jsonl on the real code of
//! RustCrypto/block-modes (path dependencies on the repository's working tree).
//! One module per property (each behind a cargo feature of the same name, so that a run compiles
//! only the module it needs); `oracle` is the uninterpreted-permutation cipher, `spec` the
//! reference models.  Harness functions are `pub` so that generated replay tests can call them.
#![allow(dead_code, unused_imports, unused_macros, clippy::all)]
pub mod oracle;
pub mod spec;
pub mod prelude;
pub mod common;

#[cfg(all(kani, feature = "c01"))]
pub mod c01;
#[cfg(all(kani, feature = "c02"))]
pub mod c02;
#[cfg(all(kani, feature = "c03"))]
pub mod c03;
#[cfg(all(kani, feature = "c04"))]
pub mod c04;
#[cfg(all(kani, feature = "c05"))]
pub mod c05;
#[cfg(all(kani, feature = "c06"))]
pub mod c06;
#[cfg(all(kani, feature = "c07"))]
pub mod c07;
#[cfg(all(kani, feature = "c08"))]
pub mod c08;
#[cfg(all(kani, feature = "c09"))]
pub mod c09;
#[cfg(all(kani, feature = "c10"))]
pub mod c10;
#[cfg(all(kani, feature = "c11"))]
pub mod c11;
#[cfg(all(kani, feature = "c12"))]
pub mod c12;
#[cfg(all(kani, feature = "c13"))]
pub mod c13;
#[cfg(all(kani, feature = "c14"))]
pub mod c14;
#[cfg(all(kani, feature = "c15"))]
pub mod c15;
#[cfg(all(kani, feature = "c16"))]
pub mod c16;
#[cfg(all(kani, feature = "c17"))]
pub mod c17;

#[cfg(kani)]
pub mod replay_slot;
