//! Kani harnesses deciding the properties of /verif/properties.jsonl on the real code of
//! RustCrypto/block-modes (path dependencies on the repository's working tree).
//! One module per property; `oracle` is the uninterpreted-permutation cipher, `spec` the
//! reference models.  Harness functions are `pub` so that generated replay tests can call them.
#![allow(dead_code, unused_imports, unused_macros, clippy::all)]
pub mod oracle;
pub mod spec;
pub mod prelude;

#[cfg(kani)]
pub mod c02;

#[cfg(kani)]
pub mod replay_slot;
