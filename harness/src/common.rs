//! Helpers shared by several property modules.
use crate::prelude::*;

/// Constructors for the six ciphertext-stealing types from an already keyed cipher.
pub mod mk {
    use crate::prelude::*;
    macro_rules! mkfn {
        ($f:ident, $ty:ident, cbc) => {
            #[allow(non_snake_case)]
            pub fn $f<C: cipher::BlockSizeUser>(c: C, iv: &[u8]) -> cts::$ty<C> {
                cts::$ty::inner_iv_init(c, blk::<C::BlockSize>(iv))
            }
        };
        ($f:ident, $ty:ident, ecb) => {
            #[allow(non_snake_case)]
            pub fn $f<C: cipher::BlockSizeUser>(c: C, _iv: &[u8]) -> cts::$ty<C> {
                cts::$ty::inner_init(c)
            }
        };
    }
    mkfn!(CbcCs1, CbcCs1, cbc);
    mkfn!(CbcCs2, CbcCs2, cbc);
    mkfn!(CbcCs3, CbcCs3, cbc);
    mkfn!(EcbCs1, EcbCs1, ecb);
    mkfn!(EcbCs2, EcbCs2, ecb);
    mkfn!(EcbCs3, EcbCs3, ecb);
}

