//! Helpers shared by several property modules.
use crate::prelude::*;

/// Constructors for the six ciphertext-stealing types from an already keyed cipher.
pub mod mk {
    use crate::prelude::*;
    macro_rules! mkfn {
        ($f:ident, $ty:ident, cbc) => {
            #[allow(non_snake_case)]
            pub fn $f<C: cipher::BlockSizeUser>(c: C, iv: &[u8]) -> cts::$ty<C> {
                cts::$ty::inner_iv_init(c, blk::<C::BlockSize>(iv))
            }
        };
        ($f:ident, $ty:ident, ecb) => {
            #[allow(non_snake_case)]
            pub fn $f<C: cipher::BlockSizeUser>(c: C, _iv: &[u8]) -> cts::$ty<C> {
                cts::$ty::inner_init(c)
            }
        };
    }
    mkfn!(CbcCs1, CbcCs1, cbc);
    mkfn!(CbcCs2, CbcCs2, cbc);
    mkfn!(CbcCs3, CbcCs3, cbc);
    mkfn!(EcbCs1, EcbCs1, ecb);
    mkfn!(EcbCs2, EcbCs2, ecb);
    mkfn!(EcbCs3, EcbCs3, ecb);
}


/// BelT-CTR objects for WRAPPER-level harnesses: s0 = E(IV) is preset to a constant (near the
/// 2^128 wrap), because with a symbolic s0 `remaining_blocks()` = MAX - (s - s_init) is symbolic and
/// every wrapper call branches on it.  Arbitrary E(IV) is covered at core level by C06.
pub const BELT_S0: u128 = u128::MAX - 1;
pub fn belt_core<C: cipher::BlockCipherEncrypt<BlockSize = U16>>(c: C, iv: &[u8]) -> belt_ctr::BeltCtrCore<C> {
    preset_next(BELT_S0);
    belt_ctr::BeltCtrCore::inner_iv_init(c, blk::<U16>(iv))
}
pub fn belt_alias<PAR: cipher::array::ArraySize>(key: [u8; 2], iv: &[u8]) -> belt_ctr::BeltCtr<UfE<U16, PAR>> {
    preset_next(BELT_S0);
    belt_ctr::BeltCtr::<UfE<U16, PAR>>::new(&key.into(), blk::<U16>(iv))
}

/// Custom block-mode closures: drive a mode through its backend's `*_inplace` entry points
/// (first block via `*_block_inplace`, one full parallel group via `*_par_blocks_inplace` when it
/// fits, the rest via `*_tail_blocks_inplace` or single blocks).  `encrypt_with_backend` /
/// `decrypt_with_backend` are public, so this is a public way of feeding blocks.
pub struct InplaceEnc<'a, BS: cipher::array::ArraySize> {
    pub blocks: &'a mut [Array<u8, BS>],
}
impl<BS: cipher::crypto_common::BlockSizes> cipher::BlockSizeUser for InplaceEnc<'_, BS> {
    type BlockSize = BS;
}
impl<BS: cipher::crypto_common::BlockSizes> cipher::BlockModeEncClosure for InplaceEnc<'_, BS> {
    fn call<B: cipher::BlockModeEncBackend<BlockSize = BS>>(self, backend: &mut B) {
        use cipher::typenum::Unsigned;
        let w = B::ParBlocksSize::USIZE;
        let blocks = self.blocks;
        let n = blocks.len();
        let mut i = 0;
        if n > 0 {
            backend.encrypt_block_inplace(&mut blocks[0]);
            i = 1;
        }
        if w > 1 && n - i >= w {
            backend.encrypt_par_blocks_inplace(<&mut Array<Array<u8, BS>, B::ParBlocksSize>>::try_from(&mut blocks[i..i + w]).unwrap());
            i += w;
        }
        if n - i < w {
            backend.encrypt_tail_blocks_inplace(&mut blocks[i..]);
        } else {
            for b in blocks[i..].iter_mut() {
                backend.encrypt_block_inplace(b);
            }
        }
    }
}
pub struct InplaceDec<'a, BS: cipher::array::ArraySize> {
    pub blocks: &'a mut [Array<u8, BS>],
}
impl<BS: cipher::crypto_common::BlockSizes> cipher::BlockSizeUser for InplaceDec<'_, BS> {
    type BlockSize = BS;
}
impl<BS: cipher::crypto_common::BlockSizes> cipher::BlockModeDecClosure for InplaceDec<'_, BS> {
    fn call<B: cipher::BlockModeDecBackend<BlockSize = BS>>(self, backend: &mut B) {
        use cipher::typenum::Unsigned;
        let w = B::ParBlocksSize::USIZE;
        let blocks = self.blocks;
        let n = blocks.len();
        let mut i = 0;
        if n > 0 {
            backend.decrypt_block_inplace(&mut blocks[0]);
            i = 1;
        }
        if w > 1 && n - i >= w {
            backend.decrypt_par_blocks_inplace(<&mut Array<Array<u8, BS>, B::ParBlocksSize>>::try_from(&mut blocks[i..i + w]).unwrap());
            i += w;
        }
        if n - i < w {
            backend.decrypt_tail_blocks_inplace(&mut blocks[i..]);
        } else {
            for b in blocks[i..].iter_mut() {
                backend.decrypt_block_inplace(b);
            }
        }
    }
}
