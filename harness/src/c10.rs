//! C10: seeking and position reporting are coherent with the keystream (CTR flavours, BelT-CTR).
//!
//! A. core contract for every counter value: c04 / c06 harnesses (listed under "also").
//! B. public API op sequences [seek, apply, current_pos, ...] with concrete byte geometry and
//!    everything else symbolic; and the same with a SYMBOLIC block index by positioning the core.
//! C. conversion kernels SeekNum::{into_block_byte, from_block_byte}, fully symbolic.
use crate::prelude::*;

// ---------------------------------------------------------------------------------------------
// C. kernels

/// position -> (block, byte):  Ok((q, r)) with q = p div bs, r = p mod bs exactly when q fits the
/// counter type, Err otherwise.  (p >= 0.)
macro_rules! into_kernel {
    ($name:ident, $t:ty, $ct:ty, $bs:expr) => {
        #[kani::proof]
        #[kani::unwind(4)]
        pub fn $name() {
            let p: $t = kani::any();
            #[allow(unused_comparisons)]
            {
                kani::assume(p >= 0);
            }
            let r = <$t as SeekNum>::into_block_byte::<$ct>(p, $bs);
            let q = (p as u128) / ($bs as u128);
            let rem = ((p as u128) % ($bs as u128)) as u8;
            if q <= <$ct>::MAX as u128 {
                match r {
                    Ok((b, y)) => assert!(b as u128 == q && y == rem, "into_block_byte inexact"),
                    // a position inside the keystream (block index < 2^w - 1) must be representable; the
                    // index 2^w - 1 itself is one past the last block and may be refused
                    Err(_) => assert!(q == <$ct>::MAX as u128, "into_block_byte rejected a position inside the keystream"),
                }
            } else {
                assert!(r.is_err(), "into_block_byte accepted a block index that does not fit the counter");
            }
            kani::cover!(r.is_ok());
        }
    };
}

/// (block, cursor) -> position under the wrapper's convention pos = block*bs - (bs - cursor),
/// 1 <= cursor <= bs, block >= 1 unless cursor == bs.  Asserted as the property states it:
/// Ok(v) => v exact;  does not fit T => Err.  (A spurious Err just below T::MAX is not forbidden.)
macro_rules! from_kernel {
    ($name:ident, $t:ty, $ct:ty, $bs:expr) => {
        #[kani::proof]
        #[kani::unwind(4)]
        pub fn $name() {
            let block: $ct = kani::any();
            let cur: u8 = kani::any();
            kani::assume(cur >= 1 && cur <= $bs);
            kani::assume(block >= 1 || cur == $bs);
            let r = <$t as SeekNum>::from_block_byte::<$ct>(block, cur, $bs);
            let prod = (block as u128).checked_mul($bs as u128);
            match prod {
                Some(pr) => {
                    let truth = pr - ($bs as u128 - cur as u128);
                    match r {
                        Ok(v) => assert!(v as u128 == truth, "reported position is not the exact byte offset"),
                        Err(_) => {}
                    }
                    if truth > <$t>::MAX as u128 {
                        assert!(r.is_err(), "position that does not fit the type was not rejected");
                    }
                }
                None => {
                    // true position >= 2^128 - bs: fits no type narrower than u128
                    if (<$t>::MAX as u128) < u128::MAX {
                        assert!(r.is_err(), "position that does not fit the type was not rejected");
                    }
                    assert!(r.is_err() || (<$t>::MAX as u128) == u128::MAX);
                }
            }
            kani::cover!(r.is_ok());
        }
    };
}

into_kernel!(k_into_u32_c32_b4, u32, u32, 4u8);
into_kernel!(k_into_u64_c32_b16, u64, u32, 16u8);
into_kernel!(k_into_i32_c32_b8, i32, u32, 8u8);
into_kernel!(k_into_usize_c64_b8, usize, u64, 8u8);
into_kernel!(k_into_u128_c64_b16, u128, u64, 16u8);
into_kernel!(k_into_u128_c128_b16, u128, u128, 16u8);
into_kernel!(k_into_u128_c32_b12, u128, u32, 12u8);
from_kernel!(k_from_u32_c32_b4, u32, u32, 4u8);
from_kernel!(k_from_i32_c32_b16, i32, u32, 16u8);
from_kernel!(k_from_u64_c32_b16, u64, u32, 16u8);
from_kernel!(k_from_u32_c64_b8, u32, u64, 8u8);
from_kernel!(k_from_u64_c64_b8, u64, u64, 8u8);
from_kernel!(k_from_usize_c128_b16, usize, u128, 16u8);
from_kernel!(k_from_u128_c128_b16, u128, u128, 16u8);
from_kernel!(k_from_u128_c64_b24, u128, u64, 24u8);

// ---------------------------------------------------------------------------------------------
// B1. op sequences on the public aliases, concrete geometry

/// assert `try_current_pos::<T>()` is Ok(v) only with v == truth, and Err when truth does not fit T
macro_rules! check_pos {
    ($s:expr, $truth:expr) => {{
        let truth: u128 = $truth;
        check_pos!(@one $s, truth, u32);
        check_pos!(@one $s, truth, u64);
        check_pos!(@one $s, truth, u128);
        check_pos!(@one $s, truth, usize);
        check_pos!(@one $s, truth, i32);
    }};
    (@one $s:expr, $truth:ident, $t:ty) => {{
        match $s.try_current_pos::<$t>() {
            Ok(v) => assert!(v as u128 == $truth, "reported position is not the number of keystream bytes before the next byte"),
            Err(_) => {}
        }
        if $truth > <$t>::MAX as u128 {
            assert!($s.try_current_pos::<$t>().is_err(), "position that does not fit the type was not rejected");
        }
    }};
}

/// seq: seek(p1) apply(n1) pos | seek(p2) apply(n2) pos | seek(p3) pos     (p's are byte offsets)
/// The keystream window [W0, W0 + NW) blocks must cover all touched bytes.
macro_rules! ctr_seq {
    ($name:ident, $unw:expr, $alias:ident, $spec:expr, $bs:ty, $b:expr, $par:ty,
     $w0:expr, $nw:expr, $p1:expr, $n1:expr, $p2:expr, $n2:expr, $p3:expr) => {
        #[kani::proof]
        #[kani::unwind($unw)]
        pub fn $name() {
            const B: usize = $b;
            const W0: u128 = $w0; // first keystream block of the window
            const NW: usize = $nw;
            let key: [u8; 2] = kani::any();
            let iv: [u8; B] = kani::any();
            let c = UfE::<$bs, $par>::with_key(key);
            let mut ks = [0u8; NW * B];
            spec::ctr_ks(c.p(), $spec, &iv, W0, &mut ks);
            let base: u128 = W0 * B as u128;
            let mut s = ctr::$alias::<UfE<$bs, $par>>::new(&key.into(), blk::<$bs>(&iv));
            check_pos!(s, 0);
            // op 1
            let p1: u128 = $p1;
            s.try_seek(p1).unwrap();
            check_pos!(s, p1);
            let d1: [u8; $n1] = kani::any();
            let mut b1 = d1;
            s.try_apply_keystream(&mut b1).unwrap();
            let mut i = 0;
            while i < $n1 {
                assert!(b1[i] == d1[i] ^ ks[(p1 - base) as usize + i], "bytes after seek are not keystream bytes p, p+1, ...");
                i += 1;
            }
            check_pos!(s, p1 + $n1 as u128);
            // op 2 (typically backward / into the middle of a block, via a different integer type)
            let p2: u64 = $p2;
            s.try_seek(p2).unwrap();
            check_pos!(s, p2 as u128);
            let d2: [u8; $n2] = kani::any();
            let mut b2 = d2;
            s.try_apply_keystream(&mut b2).unwrap();
            let mut i = 0;
            while i < $n2 {
                assert!(b2[i] == d2[i] ^ ks[(p2 as u128 - base) as usize + i], "bytes after second seek are not keystream bytes p, p+1, ...");
                i += 1;
            }
            check_pos!(s, p2 as u128 + $n2 as u128);
            // op 3
            let p3: u128 = $p3;
            s.try_seek(p3).unwrap();
            check_pos!(s, p3);
            let mut one = [0u8; 1];
            s.try_apply_keystream(&mut one).unwrap();
            assert!(one[0] == ks[(p3 - base) as usize]);
            check_pos!(s, p3 + 1);
            kani::cover!(true);
        }
    };
}

macro_rules! belt_seq {
    ($name:ident, $unw:expr, $par:ty, $w0:expr, $nw:expr, $p1:expr, $n1:expr, $p2:expr, $n2:expr, $p3:expr) => {
        #[kani::proof]
        #[kani::unwind($unw)]
        pub fn $name() {
            const B: usize = 16;
            const W0: u128 = $w0;
            const NW: usize = $nw;
            let key: [u8; 2] = kani::any();
            let iv: [u8; B] = kani::any();
            let c = UfE::<U16, $par>::with_key(key);
            let s0 = spec::belt_s0(c.p(), &iv);
            let mut ks = [0u8; NW * B];
            spec::belt_ks(c.p(), s0, W0, &mut ks);
            let base: u128 = W0 * B as u128;
            let mut s = crate::common::belt_alias::<$par>(key, &iv);
            check_pos!(s, 0);
            let p1: u128 = $p1;
            s.try_seek(p1).unwrap();
            check_pos!(s, p1);
            let d1: [u8; $n1] = kani::any();
            let mut b1 = d1;
            s.try_apply_keystream(&mut b1).unwrap();
            let mut i = 0;
            while i < $n1 {
                assert!(b1[i] == d1[i] ^ ks[(p1 - base) as usize + i], "bytes after seek are not keystream bytes p, p+1, ...");
                i += 1;
            }
            check_pos!(s, p1 + $n1 as u128);
            let p2: u128 = $p2;
            s.try_seek(p2).unwrap();
            let d2: [u8; $n2] = kani::any();
            let mut b2 = d2;
            s.try_apply_keystream(&mut b2).unwrap();
            let mut i = 0;
            while i < $n2 {
                assert!(b2[i] == d2[i] ^ ks[(p2 - base) as usize + i]);
                i += 1;
            }
            check_pos!(s, p2 + $n2 as u128);
            let p3: u128 = $p3;
            s.try_seek(p3).unwrap();
            check_pos!(s, p3);
            kani::cover!(true);
        }
    };
}

// ---------------------------------------------------------------------------------------------
// B2. block index set on the core (not through try_seek): position the core at POS, wrap it,
// consume OFF bytes, then apply N bytes.  POS is a concrete constant per harness (a symbolic one
// makes the wrapper's `blocks > remaining` test a symbolic branch merged into every later call);
// the symbolic-position statements are the core contract (c04/c06) and the position kernels.
macro_rules! ctr_anypos {
    ($name:ident, $unw:expr, $flavor:ident, $spec:expr, $ct:ty, $bs:ty, $b:expr, $par:ty, $off:expr, $n:expr, $pos:expr) => {
        #[kani::proof]
        #[kani::unwind($unw)]
        pub fn $name() {
            const B: usize = $b;
            const NB: usize = ($off + $n + B) / B;
            let iv: [u8; B] = kani::any();
            let pos: $ct = $pos;
            let c = UfE::<$bs, $par>::with_key(kani::any());
            let mut ks = [0u8; NB * B];
            spec::ctr_ks(c.p(), $spec, &iv, pos as u128, &mut ks);
            let mut core = ctr::CtrCore::<_, ctr::flavors::$flavor>::inner_iv_init(c.clone(), blk::<$bs>(&iv));
            core.set_block_pos(pos as _);
            let mut s = StreamCipherCoreWrapper::from_core(core);
            let base = pos as u128 * B as u128;
            check_pos!(s, base);
            let mut skip = [0u8; $off];
            s.try_apply_keystream(&mut skip).unwrap();
            check_pos!(s, base + $off as u128);
            let d: [u8; $n] = kani::any();
            let mut buf = d;
            s.try_apply_keystream(&mut buf).unwrap();
            let mut i = 0;
            while i < $n {
                assert!(buf[i] == d[i] ^ ks[$off + i]);
                i += 1;
            }
            check_pos!(s, base + $off as u128 + $n as u128);
            kani::cover!(true);
        }
    };
}

// ---------------------------------------------------------------------------------------------
// B3. every byte offset p in [0, PMAX] (case split), after a first consumption of Q bytes (so the
// seek is forward or backward depending on p): bytes p, p+1, p+2 of the keystream, positions exact.
macro_rules! ctr_seek_all {
    ($name:ident, $unw:expr, $alias:ident, $spec:expr, $bs:ty, $b:expr, $par:ty, $q:expr, $pmax:expr) => {
        #[kani::proof]
        #[kani::unwind($unw)]
        pub fn $name() {
            const B: usize = $b;
            const PMAX: usize = $pmax;
            const NB: usize = (PMAX + 3 + B) / B;
            let key: [u8; 2] = kani::any();
            let iv: [u8; B] = kani::any();
            let c = UfE::<$bs, $par>::with_key(key);
            let mut ks = [0u8; NB * B];
            spec::ctr_ks(c.p(), $spec, &iv, 0, &mut ks);
            let p: usize = kani::any();
            kani::assume(p <= PMAX);
            let d: [u8; 3] = kani::any();
            let mut buf = d;
            split_on!(p, 0, PMAX, p_ => {
                let mut s = ctr::$alias::<UfE<$bs, $par>>::new(&key.into(), blk::<$bs>(&iv));
                let mut skip = [0u8; $q];
                s.try_apply_keystream(&mut skip).unwrap();
                s.try_seek(p_ as u32).unwrap();
                check_pos!(s, p_ as u128);
                s.try_apply_keystream(&mut buf).unwrap();
                check_pos!(s, p_ as u128 + 3);
            });
            let mut i = 0;
            while i < 3 {
                assert!(buf[i] == d[i] ^ ks[p + i], "bytes after seek(p) are not keystream bytes p, p+1, ...");
                i += 1;
            }
            kani::cover!(p == PMAX);
            kani::cover!(p == 0);
            kani::cover!(p < $q);
        }
    };
}

// ---- quick -----------------------------------------------------------------------------------
// Ctr32BE, b=4: keystream end = (2^32-1)*4 bytes.  Window at the start.
ctr_seq!(seq_ctr32be_b4_w2_start, 64, Ctr32BE, spec::CTR32BE, U4, 4, U2, 0, 8, 9, 7, 2, 5, 12);
// window around 2^32 bytes (block 2^30): position no longer fits u32 / i32
ctr_seq!(seq_ctr32le_b4_w1_at_4g, 64, Ctr32LE, spec::CTR32LE, U4, 4, U1, 0x3fff_fffe, 8, 0x1_0000_0001, 6, 0xffff_fffb, 9, 0x1_0000_0008);
// window at the last blocks before the end (end = 0x3_ffff_fffc)
ctr_seq!(seq_ctr32be_b4_w1_near_end, 64, Ctr32BE, spec::CTR32BE, U4, 4, U1, 0xffff_fff8, 7, 0x3_ffff_ffe5, 5, 0x3_ffff_ffe1, 11, 0x3_ffff_fffb);
ctr_seq!(seq_ctr64be_b8_w2_start, 64, Ctr64BE, spec::CTR64BE, U8, 8, U2, 0, 5, 19, 11, 5, 9, 16);
ctr_seq!(seq_ctr64le_b8_w1_start, 64, Ctr64LE, spec::CTR64LE, U8, 8, U1, 0, 5, 8, 17, 7, 1, 39);
ctr_seq!(seq_ctr128be_b16_w1_start, 100, Ctr128BE, spec::CTR128BE, U16, 16, U1, 0, 4, 33, 17, 15, 2, 48);
ctr_seq!(seq_ctr128le_b16_w2_start, 100, Ctr128LE, spec::CTR128LE, U16, 16, U2, 0, 4, 16, 31, 1, 16, 63);
belt_seq!(seq_belt_w1_start, 100, U1, 0, 4, 33, 17, 15, 2, 48);
ctr_seek_all!(seekall_ctr32be_b4_w1_q5_p9, 64, Ctr32BE, spec::CTR32BE, U4, 4, U1, 5, 9);
ctr_seek_all!(t_seekall_ctr64le_b8_w2_q11_p17, 64, Ctr64LE, spec::CTR64LE, U8, 8, U2, 11, 17);
ctr_anypos!(any_ctr32be_b4_w1_o3_n6, 64, Ctr32BE, spec::CTR32BE, u32, U4, 4, U1, 3, 6, 0x7fff_fff0u32);
ctr_anypos!(any_ctr64le_b8_w2_o0_n9, 64, Ctr64LE, spec::CTR64LE, u64, U8, 8, U2, 0, 9, 0x2000_0000_0000_0001u64);
ctr_anypos!(any_ctr128be_b16_w1_o5_n12, 100, Ctr128BE, spec::CTR128BE, u128, U16, 16, U1, 5, 12, u128::MAX / 16 - 7);

// ---- thorough --------------------------------------------------------------------------------
ctr_seq!(t_seq_ctr32le_b4_w2_start, 64, Ctr32LE, spec::CTR32LE, U4, 4, U2, 0, 8, 4, 12, 3, 1, 31);
ctr_seq!(t_seq_ctr32be_b8_w2_at_4g, 64, Ctr32BE, spec::CTR32BE, U8, 8, U2, 0x1fff_fffe, 6, 0xffff_fff9, 15, 0xffff_fff0, 8, 0x1_0000_0010);
ctr_seq!(t_seq_ctr32le_b16_w1_near_end, 100, Ctr32LE, spec::CTR32LE, U16, 16, U1, 0xffff_fffc, 3, 0xf_ffff_ffc1, 31, 0xf_ffff_ffd0, 16, 0xf_ffff_ffef);
ctr_seq!(t_seq_ctr64be_b16_w2_far, 100, Ctr64BE, spec::CTR64BE, U16, 16, U2, 0x0fff_ffff_ffff_fffe, 4, 0xffff_ffff_ffff_ffe5, 20, 0xffff_ffff_ffff_ffe0, 3, 0x1_0000_0000_0000_0011);
ctr_seq!(t_seq_ctr128be_b16_w2_far, 100, Ctr128BE, spec::CTR128BE, U16, 16, U2, 0x0fff_ffff_ffff_fffe, 4, 0xffff_ffff_ffff_ffe5, 20, 0xffff_ffff_ffff_ffe0, 3, 0x1_0000_0000_0000_0011);
belt_seq!(t_seq_belt_w2_far, 100, U2, 0x0fff_ffff_ffff_fffe, 4, 0xffff_ffff_ffff_ffe5, 20, 0xffff_ffff_ffff_fff1, 3, 0x1_0000_0000_0000_0011);
ctr_seek_all!(t_seekall_ctr32le_b4_w2_q9_p13, 64, Ctr32LE, spec::CTR32LE, U4, 4, U2, 9, 13);
ctr_seek_all!(t_seekall_ctr64be_b8_w1_q3_p17, 64, Ctr64BE, spec::CTR64BE, U8, 8, U1, 3, 17);
ctr_seek_all!(t_seekall_ctr128be_b16_w1_q5_p17, 100, Ctr128BE, spec::CTR128BE, U16, 16, U1, 5, 17);
ctr_seek_all!(t_seekall_ctr128le_b16_w2_q17_p18, 100, Ctr128LE, spec::CTR128LE, U16, 16, U2, 17, 18);
ctr_anypos!(t_any_ctr32le_b4_w2_o5_n4, 64, Ctr32LE, spec::CTR32LE, u32, U4, 4, U2, 5, 4, 0x4000_0000u32);
ctr_anypos!(t_any_ctr32be_b16_w1_o15_n2, 100, Ctr32BE, spec::CTR32BE, u32, U16, 16, U1, 15, 2, 0x1000_0000u32);
ctr_anypos!(t_any_ctr64be_b8_w1_o7_n10, 64, Ctr64BE, spec::CTR64BE, u64, U8, 8, U1, 7, 10, u64::MAX / 8 + 1);
ctr_anypos!(t_any_ctr128le_b16_w2_o16_n17, 100, Ctr128LE, spec::CTR128LE, u128, U16, 16, U2, 16, 17, u128::MAX / 64 + 9);
into_kernel!(t_k_into_usize_c32_b4, usize, u32, 4u8);
into_kernel!(t_k_into_u64_c128_b32, u64, u128, 32u8);
into_kernel!(t_k_into_i32_c64_b24, i32, u64, 24u8);
from_kernel!(t_k_from_usize_c32_b4, usize, u32, 4u8);
from_kernel!(t_k_from_i32_c128_b32, i32, u128, 32u8);
from_kernel!(t_k_from_u64_c128_b16, u64, u128, 16u8);
