//! C13: bad lengths are rejected without side effects; no public operation panics.
//! (Every harness of every module also runs with Kani's panic / overflow / bounds / pointer
//! checks on; this module adds the rejection contracts and "total" drivers.)
use crate::prelude::*;
use cipher::block_padding::Pkcs7;
use cts::{Decrypt, Encrypt};

/// CTS: every length below one block is rejected (in place and b2b, both directions) and no
/// byte of the caller's buffers changes; b2b with unequal lengths is rejected likewise.
macro_rules! cts_reject {
    ($name:ident, $unw:expr, $ty:ident, $bs:ty, $b:expr, $par:ty) => {
        #[kani::proof]
        #[kani::unwind($unw)]
        pub fn $name() {
            const B: usize = $b;
            const M: usize = B + 2;
            let key: [u8; 2] = kani::any();
            let iv: [u8; B] = kani::any();
            let data: [u8; M] = kani::any();
            let dirty: [u8; M] = kani::any();
            let len: usize = kani::any();
            kani::assume(len < B);
            let mk = || crate::common::mk::$ty(Uf::<$bs, $par>::with_key(key), &iv);
            let mut a = data;
            let mut o = dirty;
            // (case splits keep every length concrete inside its branch, so the length tests fold and
            // only the rejecting path is executed symbolically)
            split_on!(len, 0, B - 1, l => {
                assert!(mk().encrypt(&mut a[..l]).is_err(), "message shorter than one block accepted");
                assert!(mk().decrypt(&mut a[..l]).is_err(), "ciphertext shorter than one block accepted");
                assert!(mk().encrypt_b2b(&data[..l], &mut o[..l]).is_err());
                assert!(mk().decrypt_b2b(&data[..l], &mut o[..l]).is_err());
            });
            // unequal lengths (any pair, including both at least one block)
            let li: usize = kani::any();
            let lo: usize = kani::any();
            kani::assume(li <= M && lo <= M && li != lo);
            split_on!(li, 0, M, li_ => {
                split_on!(lo, 0, M, lo_ => {
                    if li_ != lo_ {
                        assert!(mk().encrypt_b2b(&data[..li_], &mut o[..lo_]).is_err(), "b2b with unequal lengths accepted");
                        assert!(mk().decrypt_b2b(&data[..li_], &mut o[..lo_]).is_err(), "b2b with unequal lengths accepted");
                    }
                });
            });
            let mut i = 0;
            while i < M {
                assert!(a[i] == data[i] && o[i] == dirty[i], "rejected call modified a buffer");
                i += 1;
            }
            kani::cover!(len == B - 1);
            kani::cover!(li >= B && lo >= B);
        }
    };
}

/// Block modes: `*_blocks_b2b` with different block counts is rejected, output and state untouched.
macro_rules! blocks_b2b_reject {
    ($name:ident, $unw:expr, $ty:ident :: $t2:ident, $dir:ident, $bs:ty, $b:expr, $ivbs:ty, $ivlen:expr, $mbs:ty, $mb:expr) => {
        #[kani::proof]
        #[kani::unwind($unw)]
        pub fn $name() {
            const MB: usize = $mb;
            const N: usize = 3;
            let iv: [u8; $ivlen] = kani::any();
            let input: [u8; N * MB] = kani::any();
            let dirty: [u8; N * MB] = kani::any();
            let c = Uf::<$bs, U2>::with_key(kani::any());
            let mut m = $ty::$t2::inner_iv_init(c.clone(), blk::<$ivbs>(&iv));
            let s0 = m.iv_state();
            let ni: usize = kani::any();
            let no: usize = kani::any();
            kani::assume(ni <= N && no <= N && ni != no);
            let mut out = dirty;
            split_on!(ni, 0, N, ni_ => {
                split_on!(no, 0, N, no_ => {
                    if ni_ != no_ {
                        let r = do_blocks_b2b!($dir, m, &blocks::<$mbs>(&input)[..ni_], &mut blocks_mut::<$mbs>(&mut out)[..no_]);
                        assert!(r.is_err(), "b2b with unequal block counts accepted");
                    }
                });
            });
            let mut i = 0;
            while i < N * MB {
                assert!(out[i] == dirty[i], "rejected call modified the output buffer");
                i += 1;
            }
            let s1 = m.iv_state();
            let mut j = 0;
            while j < $ivlen {
                assert!(s0[j] == s1[j], "rejected call changed the chaining state");
                j += 1;
            }
            kani::cover!(ni == 0);
            kani::cover!(no == 0);
        }
    };
}

/// One-shot CFB / CFB-8 `*_b2b` with unequal lengths.
macro_rules! oneshot_b2b_reject {
    ($name:ident, $unw:expr, $krate:ident, $ty:ident, $dir:ident, $bs:ty, $b:expr) => {
        #[kani::proof]
        #[kani::unwind($unw)]
        pub fn $name() {
            const B: usize = $b;
            const M: usize = B + 2;
            let iv: [u8; B] = kani::any();
            let input: [u8; M] = kani::any();
            let dirty: [u8; M] = kani::any();
            let c = UfE::<$bs, U2>::with_key(kani::any());
            let li: usize = kani::any();
            let lo: usize = kani::any();
            kani::assume(li <= M && lo <= M && li != lo);
            let mut out = dirty;
            split_on!(li, 0, M, li_ => {
                split_on!(lo, 0, M, lo_ => {
                    if li_ != lo_ {
                        let m = $krate::$ty::inner_iv_init(c.clone(), blk::<$bs>(&iv));
                        assert!(do_oneshot_b2b!($dir, m, &input[..li_], &mut out[..lo_]).is_err(), "b2b with unequal lengths accepted");
                    }
                });
            });
            let mut i = 0;
            while i < M {
                assert!(out[i] == dirty[i], "rejected call modified the output buffer");
                i += 1;
            }
            kani::cover!(true);
        }
    };
}

/// Byte-level stream ciphers: apply_keystream_b2b with unequal lengths: Err, output untouched,
/// position unchanged, following keystream unaffected.
macro_rules! stream_b2b_reject {
    ($name:ident, $unw:expr, $mk:expr, $b:expr) => {
        #[kani::proof]
        #[kani::unwind($unw)]
        pub fn $name() {
            const B: usize = $b;
            const M: usize = B + 2;
            let key: [u8; 2] = kani::any();
            let iv: [u8; B] = kani::any();
            let input: [u8; M] = kani::any();
            let dirty: [u8; M] = kani::any();
            // reference: 3 bytes then M bytes, no rejected call in between
            let mut r1 = [0u8; 3];
            let mut r2 = input;
            let mut sref = $mk(key, &iv);
            sref.apply_keystream(&mut r1);
            sref.apply_keystream(&mut r2);
            // subject: the rejected calls (every unequal pair, case split) must leave output, position
            // and the following keystream alone
            let li: usize = kani::any();
            let lo: usize = kani::any();
            kani::assume(li <= M && lo <= M && li != lo);
            let mut out = dirty;
            let mut s = $mk(key, &iv);
            let mut p1 = [0u8; 3];
            s.apply_keystream(&mut p1);
            split_on!(li, 0, M, li_ => {
                split_on!(lo, 0, M, lo_ => {
                    if li_ != lo_ {
                        assert!(s.apply_keystream_b2b(&input[..li_], &mut out[..lo_]).is_err(), "b2b with unequal lengths accepted");
                    }
                });
            });
            let mut p2 = input;
            s.apply_keystream(&mut p2);
            let mut i = 0;
            while i < M {
                assert!(out[i] == dirty[i], "rejected call modified the output buffer");
                i += 1;
            }
            let mut i = 0;
            while i < M {
                assert!(p2[i] == r2[i], "rejected call disturbed the keystream position");
                i += 1;
            }
            kani::cover!(true);
        }
    };
}

/// decrypt_padded[_b2b] with a length that is not a multiple of the block size: Err, untouched.
macro_rules! padded_reject {
    ($name:ident, $unw:expr, $krate:ident, $bs:ty, $b:expr, $ivbs:ty, $ivlen:expr) => {
        #[kani::proof]
        #[kani::unwind($unw)]
        pub fn $name() {
            const B: usize = $b;
            const M: usize = 3 * B;
            let iv: [u8; $ivlen] = kani::any();
            let data: [u8; M] = kani::any();
            let dirty: [u8; M] = kani::any();
            let c = Uf::<$bs, U2>::with_key(kani::any());
            let len: usize = kani::any();
            kani::assume(len <= M && len % B != 0);
            let mut a = data;
            let mut o = dirty;
            split_on!(len, 0, M, l => {
                if l % B != 0 {
                    assert!($krate::Decryptor::inner_iv_init(c.clone(), blk::<$ivbs>(&iv)).decrypt_padded::<Pkcs7>(&mut a[..l]).is_err(),
                        "padded decryption of a non-multiple length accepted");
                    assert!($krate::Decryptor::inner_iv_init(c.clone(), blk::<$ivbs>(&iv)).decrypt_padded_b2b::<Pkcs7>(&data[..l], &mut o[..l]).is_err());
                }
            });
            // output shorter than input
            let l2: usize = kani::any();
            kani::assume(l2 < M);
            split_on!(l2, 0, M - 1, l => {
                assert!($krate::Decryptor::inner_iv_init(c.clone(), blk::<$ivbs>(&iv)).decrypt_padded_b2b::<Pkcs7>(&data[..], &mut o[..l]).is_err());
            });
            let mut i = 0;
            while i < M {
                assert!(a[i] == data[i] && o[i] == dirty[i], "rejected call modified a buffer");
                i += 1;
            }
            kani::cover!(len == M - 1);
            kani::cover!(len == 1);
        }
    };
}

/// Construction from slices: Ok exactly when key is 2 bytes and IV has the expected length.
macro_rules! from_slices_case {
    ($name:ident, $unw:expr, $ty:ty, $ivlen:expr) => {
        #[kani::proof]
        #[kani::unwind($unw)]
        pub fn $name() {
            const IVL: usize = $ivlen;
            let key: [u8; 5] = kani::any();
            let iv: [u8; 2 * IVL + 2] = kani::any();
            let kl: usize = kani::any();
            let il: usize = kani::any();
            const ILO: usize = if IVL > 2 { IVL - 2 } else { 0 };
            const IHI: usize = 2 * IVL + 1; // includes "one block too many" for IGE's double-length IV and 2x
            kani::assume(kl >= 1 && kl <= 3 && il >= ILO && il <= IHI);
            let mut ok = false;
            split_on!(kl, 1, 3, kl_ => {
                split_on!(il, ILO, IHI, il_ => {
                    ok = <$ty>::new_from_slices(&key[..kl_], &iv[..il_]).is_ok();
                });
            });
            assert!(ok == (kl == 2 && il == IVL), "new_from_slices accepts exactly the right lengths");
            kani::cover!(ok);
            kani::cover!(kl == 2 && il == IVL + 1);
            kani::cover!(kl == 2 && il + 1 == IVL);
            kani::cover!(kl == 3 && il == IVL);
            kani::cover!(kl == 2 && il == 2 * IVL);
        }
    };
}
macro_rules! from_slice_case {
    ($name:ident, $unw:expr, $ty:ty) => {
        #[kani::proof]
        #[kani::unwind($unw)]
        pub fn $name() {
            let key: [u8; 5] = kani::any();
            let kl: usize = kani::any();
            kani::assume(kl <= 5);
            let mut ok = false;
            split_on!(kl, 0, 5, kl_ => {
                ok = <$ty>::new_from_slice(&key[..kl_]).is_ok();
            });
            assert!(ok == (kl == 2));
            kani::cover!(ok);
            kani::cover!(kl == 1);
        }
    };
}

/// Total driver: stream cipher at ANY block position (no assumption), request of symbolic length:
/// either outcome is fine, nothing may panic, and a rejected request leaves the data alone.
macro_rules! stream_total {
    ($name:ident, $unw:expr, $core:expr, $ct:ty, $bs:ty, $b:expr, $nmax:expr) => {
        #[kani::proof]
        #[kani::unwind($unw)]
        pub fn $name() {
            const B: usize = $b;
            const NMAX: usize = $nmax;
            let iv: [u8; B] = kani::any();
            let c = UfE::<$bs, U2>::with_key(kani::any());
            let pos: $ct = kani::any();
            let data: [u8; NMAX] = kani::any();
            let mut buf = data;
            let n: usize = kani::any();
            kani::assume(n <= NMAX);
            let mut ok = true;
            split_on!(n, 0, NMAX, n_ => {
                let mut core = $core(c.clone(), blk::<$bs>(&iv));
                core.set_block_pos(pos as _);
                let _ = core.remaining_blocks();
                let mut s = StreamCipherCoreWrapper::from_core(core);
                ok = s.try_apply_keystream(&mut buf[..n_]).is_ok();
                let _ = s.try_current_pos::<u32>();
                let _ = s.try_current_pos::<u128>();
                let _ = s.try_current_pos::<i32>();
                let _ = s.try_current_pos::<usize>();
            });
            if !ok {
                let mut i = 0;
                while i < NMAX {
                    assert!(buf[i] == data[i], "rejected request modified the data");
                    i += 1;
                }
            }
            kani::cover!(ok && n == NMAX);
            kani::cover!(!ok);
        }
    };
}
fn core_ctr32be<C: cipher::BlockCipherEncrypt<BlockSize = U4>>(c: C, iv: &Array<u8, U4>) -> ctr::CtrCore<C, ctr::flavors::Ctr32BE> { ctr::CtrCore::inner_iv_init(c, iv) }
fn core_ctr32le<C: cipher::BlockCipherEncrypt<BlockSize = U4>>(c: C, iv: &Array<u8, U4>) -> ctr::CtrCore<C, ctr::flavors::Ctr32LE> { ctr::CtrCore::inner_iv_init(c, iv) }
fn core_ctr64be<C: cipher::BlockCipherEncrypt<BlockSize = U8>>(c: C, iv: &Array<u8, U8>) -> ctr::CtrCore<C, ctr::flavors::Ctr64BE> { ctr::CtrCore::inner_iv_init(c, iv) }
fn core_ctr64le<C: cipher::BlockCipherEncrypt<BlockSize = U8>>(c: C, iv: &Array<u8, U8>) -> ctr::CtrCore<C, ctr::flavors::Ctr64LE> { ctr::CtrCore::inner_iv_init(c, iv) }
fn core_ctr128be<C: cipher::BlockCipherEncrypt<BlockSize = U16>>(c: C, iv: &Array<u8, U16>) -> ctr::CtrCore<C, ctr::flavors::Ctr128BE> { ctr::CtrCore::inner_iv_init(c, iv) }
fn core_ctr128le<C: cipher::BlockCipherEncrypt<BlockSize = U16>>(c: C, iv: &Array<u8, U16>) -> ctr::CtrCore<C, ctr::flavors::Ctr128LE> { ctr::CtrCore::inner_iv_init(c, iv) }
fn core_belt<C: cipher::BlockCipherEncrypt<BlockSize = U16>>(c: C, iv: &Array<u8, U16>) -> belt_ctr::BeltCtrCore<C> { crate::common::belt_core(c, iv) }

/// Total driver: CTS, all lengths 0..=M, one-byte blocks included: Ok iff len >= b, never panics.
macro_rules! cts_total {
    ($name:ident, $unw:expr, $ty:ident, $bs:ty, $b:expr, $par:ty, $m:expr) => {
        #[kani::proof]
        #[kani::unwind($unw)]
        pub fn $name() {
            const B: usize = $b;
            const M: usize = $m;
            let key: [u8; 2] = kani::any();
            let iv: [u8; B] = kani::any();
            let data: [u8; M] = kani::any();
            let len: usize = kani::any();
            kani::assume(len <= M);
            let mut a = data;
            let mut d = data;
            let mut ok_e = false;
            let mut ok_d = false;
            split_on!(len, 0, M, l => {
                ok_e = crate::common::mk::$ty(Uf::<$bs, $par>::with_key(key), &iv).encrypt(&mut a[..l]).is_ok();
                ok_d = crate::common::mk::$ty(Uf::<$bs, $par>::with_key(key), &iv).decrypt(&mut d[..l]).is_ok();
            });
            assert!(ok_e == (len >= B) && ok_d == (len >= B), "accepted iff at least one block");
            kani::cover!(len == M);
            kani::cover!(len == 0);
        }
    };
}

fn mk_ofb_b2(key: [u8; 2], iv: &[u8; 2]) -> ofb::Ofb<UfE<U2, U2>> { ofb::Ofb::new(&key.into(), blk::<U2>(iv)) }
fn mk_ctr32be_b4(key: [u8; 2], iv: &[u8; 4]) -> ctr::Ctr32BE<UfE<U4, U2>> { ctr::Ctr32BE::new(&key.into(), blk::<U4>(iv)) }
fn mk_ctr64le_b8(key: [u8; 2], iv: &[u8; 8]) -> ctr::Ctr64LE<UfE<U8, U2>> { ctr::Ctr64LE::new(&key.into(), blk::<U8>(iv)) }
fn mk_ctr128be_b16(key: [u8; 2], iv: &[u8; 16]) -> ctr::Ctr128BE<UfE<U16, U2>> { ctr::Ctr128BE::new(&key.into(), blk::<U16>(iv)) }
fn mk_belt(key: [u8; 2], iv: &[u8; 16]) -> belt_ctr::BeltCtr<UfE<U16, U2>> { crate::common::belt_alias::<U2>(key, iv) }

// ---- quick -----------------------------------------------------------------------------------
cts_reject!(cts_reject_cbc_cs1_b4, 48, CbcCs1, U4, 4, U2);
cts_reject!(cts_reject_cbc_cs2_b4, 48, CbcCs2, U4, 4, U2);
cts_reject!(cts_reject_cbc_cs3_b4, 48, CbcCs3, U4, 4, U2);
cts_reject!(cts_reject_ecb_cs1_b4, 48, EcbCs1, U4, 4, U2);
cts_reject!(cts_reject_ecb_cs2_b4, 48, EcbCs2, U4, 4, U2);
cts_reject!(cts_reject_ecb_cs3_b4, 48, EcbCs3, U4, 4, U2);
blocks_b2b_reject!(b2b_reject_cbc_enc, 48, cbc::Encryptor, enc, U2, 2, U2, 2, U2, 2);
blocks_b2b_reject!(b2b_reject_cbc_dec, 48, cbc::Decryptor, dec, U2, 2, U2, 2, U2, 2);
blocks_b2b_reject!(b2b_reject_pcbc_enc, 48, pcbc::Encryptor, enc, U2, 2, U2, 2, U2, 2);
blocks_b2b_reject!(b2b_reject_pcbc_dec, 48, pcbc::Decryptor, dec, U2, 2, U2, 2, U2, 2);
blocks_b2b_reject!(b2b_reject_ige_enc, 48, ige::Encryptor, enc, U2, 2, U4, 4, U2, 2);
blocks_b2b_reject!(b2b_reject_ige_dec, 48, ige::Decryptor, dec, U2, 2, U4, 4, U2, 2);
blocks_b2b_reject!(b2b_reject_cfb_enc, 48, cfb_mode::Encryptor, enc, U2, 2, U2, 2, U2, 2);
blocks_b2b_reject!(b2b_reject_cfb_dec, 48, cfb_mode::Decryptor, dec, U2, 2, U2, 2, U2, 2);
blocks_b2b_reject!(b2b_reject_cfb8_enc, 48, cfb8::Encryptor, enc, U2, 2, U2, 2, U1, 1);
blocks_b2b_reject!(b2b_reject_cfb8_dec, 48, cfb8::Decryptor, dec, U2, 2, U2, 2, U1, 1);
blocks_b2b_reject!(b2b_reject_ofb_enc, 48, ofb::OfbCore, enc, U2, 2, U2, 2, U2, 2);
blocks_b2b_reject!(b2b_reject_ofb_dec, 48, ofb::OfbCore, dec, U2, 2, U2, 2, U2, 2);
oneshot_b2b_reject!(oneshot_reject_cfb_enc, 48, cfb_mode, Encryptor, enc, U2, 2);
oneshot_b2b_reject!(oneshot_reject_cfb_dec, 48, cfb_mode, Decryptor, dec, U2, 2);
oneshot_b2b_reject!(oneshot_reject_cfb8_enc, 48, cfb8, Encryptor, enc, U2, 2);
oneshot_b2b_reject!(oneshot_reject_cfb8_dec, 48, cfb8, Decryptor, dec, U2, 2);
stream_b2b_reject!(stream_reject_ofb_b2, 48, mk_ofb_b2, 2);
stream_b2b_reject!(stream_reject_ctr32be_b4, 48, mk_ctr32be_b4, 4);
stream_b2b_reject!(stream_reject_ctr64le_b8, 64, mk_ctr64le_b8, 8);
stream_b2b_reject!(stream_reject_belt, 100, mk_belt, 16);
padded_reject!(padded_reject_cbc_b4, 48, cbc, U4, 4, U4, 4);
padded_reject!(padded_reject_pcbc_b2, 48, pcbc, U2, 2, U2, 2);
padded_reject!(padded_reject_ige_b2, 48, ige, U2, 2, U4, 4);
from_slices_case!(slices_cbc_enc, 16, cbc::Encryptor<Uf<U4, U1>>, 4);
from_slices_case!(slices_cbc_dec, 16, cbc::Decryptor<Uf<U4, U1>>, 4);
from_slices_case!(slices_pcbc_enc, 16, pcbc::Encryptor<Uf<U4, U1>>, 4);
from_slices_case!(slices_pcbc_dec, 16, pcbc::Decryptor<Uf<U4, U1>>, 4);
from_slices_case!(slices_ige_enc, 16, ige::Encryptor<Uf<U4, U1>>, 8);
from_slices_case!(slices_ige_dec, 16, ige::Decryptor<Uf<U4, U1>>, 8);
from_slices_case!(slices_cfb_enc, 16, cfb_mode::Encryptor<UfE<U4, U1>>, 4);
from_slices_case!(slices_cfb_dec, 16, cfb_mode::Decryptor<UfE<U4, U1>>, 4);
from_slices_case!(slices_cfb_bufenc, 16, cfb_mode::BufEncryptor<UfE<U4, U1>>, 4);
from_slices_case!(slices_cfb_bufdec, 16, cfb_mode::BufDecryptor<UfE<U4, U1>>, 4);
from_slices_case!(slices_cfb8_enc, 16, cfb8::Encryptor<UfE<U4, U1>>, 4);
from_slices_case!(slices_cfb8_dec, 16, cfb8::Decryptor<UfE<U4, U1>>, 4);
from_slices_case!(slices_ofb, 16, ofb::Ofb<UfE<U4, U1>>, 4);
from_slices_case!(slices_ofb_core, 16, ofb::OfbCore<UfE<U4, U1>>, 4);
from_slices_case!(slices_ctr32be, 16, ctr::Ctr32BE<UfE<U4, U1>>, 4);
from_slices_case!(slices_ctr32le, 16, ctr::Ctr32LE<UfE<U8, U1>>, 8);
from_slices_case!(slices_ctr64be, 16, ctr::Ctr64BE<UfE<U8, U1>>, 8);
from_slices_case!(slices_ctr64le, 24, ctr::Ctr64LE<UfE<U16, U1>>, 16);
from_slices_case!(slices_ctr128be, 24, ctr::Ctr128BE<UfE<U16, U1>>, 16);
from_slices_case!(slices_ctr128le, 24, ctr::Ctr128LE<UfE<U16, U1>>, 16);
from_slices_case!(slices_belt, 24, belt_ctr::BeltCtr<UfE<U16, U1>>, 16);
from_slices_case!(slices_cbc_cs1, 16, cts::CbcCs1<Uf<U4, U1>>, 4);
from_slices_case!(slices_cbc_cs2, 16, cts::CbcCs2<Uf<U4, U1>>, 4);
from_slices_case!(slices_cbc_cs3, 16, cts::CbcCs3<Uf<U4, U1>>, 4);
from_slice_case!(slice_ecb_cs1, 16, cts::EcbCs1<Uf<U4, U1>>);
from_slice_case!(slice_ecb_cs2, 16, cts::EcbCs2<Uf<U4, U1>>);
from_slice_case!(slice_ecb_cs3, 16, cts::EcbCs3<Uf<U4, U1>>);
stream_total!(total_ctr32be_b4, 48, core_ctr32be, u32, U4, 4, 9);
stream_total!(total_ctr64le_b8, 64, core_ctr64le, u64, U8, 8, 10);
stream_total!(total_belt, 100, core_belt, u128, U16, 16, 2);
stream_total!(total_ctr128le_b16_n2, 100, core_ctr128le, u128, U16, 16, 2);
stream_total!(total_ctr128be_b16_n2, 100, core_ctr128be, u128, U16, 16, 2);
stream_total!(t_total_belt_n17, 100, core_belt, u128, U16, 16, 17);
cts_total!(total_cts_cbc_cs1_b1, 48, CbcCs1, U1, 1, U2, 4);
cts_total!(total_cts_cbc_cs3_b1_w1, 48, CbcCs3, U1, 1, U1, 4);
cts_total!(total_cts_cbc_cs2_b3_w1, 48, CbcCs2, U3, 3, U1, 8);
cts_total!(total_cts_ecb_cs2_b1, 48, EcbCs2, U1, 1, U2, 4);
cts_total!(total_cts_ecb_cs3_b3, 48, EcbCs3, U3, 3, U2, 8);

// ---- thorough --------------------------------------------------------------------------------
cts_reject!(t_cts_reject_cbc_cs1_b1, 48, CbcCs1, U1, 1, U1);
cts_reject!(t_cts_reject_cbc_cs3_b8, 64, CbcCs3, U8, 8, U3);
cts_reject!(t_cts_reject_ecb_cs1_b3, 48, EcbCs1, U3, 3, U2);
cts_reject!(t_cts_reject_ecb_cs3_b16, 100, EcbCs3, U16, 16, U2);
padded_reject!(t_padded_reject_cbc_b3, 48, cbc, U3, 3, U3, 3);
padded_reject!(t_padded_reject_pcbc_b8, 64, pcbc, U8, 8, U8, 8);
padded_reject!(t_padded_reject_ige_b4, 48, ige, U4, 4, U8, 8);
stream_b2b_reject!(t_stream_reject_ctr128be_b16, 100, mk_ctr128be_b16, 16);
stream_total!(t_total_ctr32le_b4, 48, core_ctr32le, u32, U4, 4, 13);
stream_total!(t_total_ctr64be_b8, 64, core_ctr64be, u64, U8, 8, 17);
stream_total!(t_total_ctr128be_b16, 100, core_ctr128be, u128, U16, 16, 17);
stream_total!(t_total_ctr128le_b16, 100, core_ctr128le, u128, U16, 16, 17);
cts_total!(t_total_cts_cbc_cs2_b1, 48, CbcCs2, U1, 1, U3, 5);
cts_total!(t_total_cts_ecb_cs1_b1, 48, EcbCs1, U1, 1, U3, 5);
cts_total!(t_total_cts_ecb_cs3_b1, 48, EcbCs3, U1, 1, U1, 4);
cts_total!(t_total_cts_cbc_cs1_b3, 48, CbcCs1, U3, 3, U2, 10);
cts_total!(t_total_cts_cbc_cs2_b3, 48, CbcCs2, U3, 3, U4, 10);
cts_total!(t_total_cts_cbc_cs3_b3, 48, CbcCs3, U3, 3, U2, 10);
cts_total!(t_total_cts_ecb_cs1_b3, 48, EcbCs1, U3, 3, U2, 10);
cts_total!(t_total_cts_ecb_cs2_b3, 48, EcbCs2, U3, 3, U4, 10);
