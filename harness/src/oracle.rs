//! Uninterpreted keyed permutation ("every block cipher" as a solver quantifier).
//!
//! Every call to E or D returns a fresh nondeterministic block that is constrained only by
//! `x == x_i  <=>  y == y_i` against all earlier calls made under the same key.  Any finite
//! partial bijection extends to a permutation, so a counter-example is a real cipher, and
//! every permutation is a model, so a pass holds for all ciphers of that block size.
//!
//! The table is global (one per CBMC run).  Calls always append, so on straight-line code the
//! call counter stays a constant and the table loops stay concrete.
use cipher::{
    AlgorithmName, Block, BlockCipherDecBackend, BlockCipherDecClosure, BlockCipherDecrypt,
    BlockCipherEncBackend, BlockCipherEncClosure, BlockCipherEncrypt, BlockSizeUser, InOut, Key,
    KeyInit, KeySizeUser, ParBlocksSizeUser,
    array::{Array, ArraySize},
    consts::U2,
    crypto_common::BlockSizes,
};
use core::fmt;
use core::marker::PhantomData;

pub const CAP: usize = 72;
pub const MAXB: usize = 32;

pub struct Table {
    pub k: [[u8; 2]; CAP],
    pub x: [[u8; MAXB]; CAP],
    pub y: [[u8; MAXB]; CAP],
    /// number of recorded calls (both directions)
    pub n: usize,
    /// number of calls in the decryption direction
    pub nd: usize,
}
pub static mut TAB: Table = Table {
    k: [[0; 2]; CAP],
    x: [[0; MAXB]; CAP],
    y: [[0; MAXB]; CAP],
    n: 0,
    nd: 0,
};

/// Native builds only: real block cipher behind the oracle (key id, input block, block size, forward).
#[cfg(not(kani))]
pub static mut NATIVE: Option<fn([u8; 2], &[u8; MAXB], usize, bool) -> [u8; MAXB]> = None;

/// Output preset for the NEXT oracle call (then cleared).  Restricts the quantified cipher family
/// to those mapping that call's input to the preset value; used only where a symbolic value would
/// make control flow symbolic (BelT-CTR's s0 = E(IV) inside the byte-level wrapper, whose
/// `remaining_blocks` feeds a branch).  Every use is listed in the evidence assumptions.
pub static mut PRESET: Option<[u8; MAXB]> = None;
#[allow(static_mut_refs)]
pub fn preset_next(v: u128) {
    let mut b = [0u8; MAXB];
    let le = v.to_le_bytes();
    let mut i = 0;
    while i < 16 {
        b[i] = le[i];
        i += 1;
    }
    unsafe {
        PRESET = Some(b);
    }
}

#[inline(always)]
fn eq_n(a: &[u8; MAXB], b: &[u8; MAXB], n: usize) -> bool {
    let mut r = true;
    let mut i = 0;
    while i < n {
        r &= a[i] == b[i];
        i += 1;
    }
    r
}

/// Number of decrypt-direction oracle calls so far.
#[allow(static_mut_refs)]
pub fn dec_calls() -> usize {
    unsafe { TAB.nd }
}
/// Number of oracle calls so far.
#[allow(static_mut_refs)]
pub fn calls() -> usize {
    unsafe { TAB.n }
}
/// Rewind the call counter to an earlier value (used when mutually exclusive branches of a
/// case split each continue from the same table prefix, so the counter stays concrete).
#[allow(static_mut_refs)]
pub fn set_calls(n: usize, nd: usize) {
    unsafe {
        TAB.n = n;
        TAB.nd = nd;
    }
}
/// Input block (x side) of call `i`.
#[allow(static_mut_refs)]
pub fn call_x(i: usize) -> [u8; MAXB] {
    unsafe { TAB.x[i] }
}

#[allow(static_mut_refs)]
pub fn apply(key: [u8; 2], inp: &[u8; MAXB], n: usize, forward: bool) -> [u8; MAXB] {
    let t = unsafe { &mut TAB };
    #[allow(unused_mut)]
    let mut fresh = [0u8; MAXB];
    #[cfg(kani)]
    {
        let mut i = 0;
        while i < n {
            fresh[i] = kani::any();
            i += 1;
        }
    }
    #[cfg(not(kani))]
    {
        // native build: a real cipher installed by the self-test (tests/spec_vectors.rs), else a toy
        // bytewise permutation so that the crate links
        #[allow(static_mut_refs)]
        if let Some(f) = unsafe { NATIVE } {
            fresh = f(key, inp, n, forward);
        } else {
            let mut i = 0;
            while i < n {
                fresh[i] = if forward { inp[i].wrapping_add(key[0]) ^ key[1] } else { (inp[i] ^ key[1]).wrapping_sub(key[0]) };
                i += 1;
            }
        }
    }
    #[allow(static_mut_refs)]
    if let Some(p) = unsafe { PRESET.take() } {
        fresh = p;
    }
    let (x, y) = if forward { (*inp, fresh) } else { (fresh, *inp) };
    #[cfg(kani)]
    {
        let mut j = 0;
        while j < t.n {
            let same_key = t.k[j][0] == key[0] && t.k[j][1] == key[1];
            kani::assume(!same_key || (eq_n(&x, &t.x[j], n) == eq_n(&y, &t.y[j], n)));
            j += 1;
        }
    }
    #[cfg(not(kani))]
    {
        let _ = (&x, &y, &t);
        return fresh;
    }
    #[allow(unreachable_code)]
    {
    assert!(t.n < CAP, "oracle capacity");
    t.k[t.n] = key;
    t.x[t.n] = x;
    t.y[t.n] = y;
    t.n += 1;
    if !forward {
        t.nd += 1;
    }
    fresh
    }
}

/// Handle on the permutation selected by `key`, for the reference models.
#[derive(Clone, Copy)]
pub struct P {
    pub key: [u8; 2],
    pub b: usize,
}
impl P {
    #[inline(always)]
    pub fn e(&self, inp: &[u8]) -> [u8; MAXB] {
        let mut blk = [0u8; MAXB];
        let mut i = 0;
        while i < self.b {
            blk[i] = inp[i];
            i += 1;
        }
        apply(self.key, &blk, self.b, true)
    }
    #[inline(always)]
    pub fn d(&self, inp: &[u8]) -> [u8; MAXB] {
        let mut blk = [0u8; MAXB];
        let mut i = 0;
        while i < self.b {
            blk[i] = inp[i];
            i += 1;
        }
        apply(self.key, &blk, self.b, false)
    }
}

/// Full cipher (E and D), block size `BS`, declared parallel width `PAR`, 2-byte key.
#[derive(Clone)]
pub struct Uf<BS: ArraySize, PAR: ArraySize> {
    pub key: [u8; 2],
    _p: PhantomData<(BS, PAR)>,
}
/// Encrypt-only cipher: does not implement `BlockCipherDecrypt` at all, so a mode that
/// compiles against it provably never uses the decryption direction.
#[derive(Clone)]
pub struct UfE<BS: ArraySize, PAR: ArraySize> {
    pub key: [u8; 2],
    _p: PhantomData<(BS, PAR)>,
}
/// Zero-sized cipher (fixed key 0,0) for storage-image checks: the object's memory then
/// consists of mode state only.
#[derive(Clone)]
pub struct UfZ<BS: ArraySize, PAR: ArraySize>(PhantomData<(BS, PAR)>);

impl<BS: ArraySize, PAR: ArraySize> Uf<BS, PAR> {
    pub fn with_key(key: [u8; 2]) -> Self {
        Self { key, _p: PhantomData }
    }
    pub fn p(&self) -> P {
        P { key: self.key, b: BS::USIZE }
    }
    pub fn e(&self, inp: &[u8]) -> [u8; MAXB] {
        self.p().e(inp)
    }
    pub fn d(&self, inp: &[u8]) -> [u8; MAXB] {
        self.p().d(inp)
    }
}
impl<BS: ArraySize, PAR: ArraySize> UfE<BS, PAR> {
    pub fn with_key(key: [u8; 2]) -> Self {
        Self { key, _p: PhantomData }
    }
    pub fn p(&self) -> P {
        P { key: self.key, b: BS::USIZE }
    }
    pub fn e(&self, inp: &[u8]) -> [u8; MAXB] {
        self.p().e(inp)
    }
}
impl<BS: ArraySize, PAR: ArraySize> UfZ<BS, PAR> {
    pub fn new() -> Self {
        Self(PhantomData)
    }
    pub fn p(&self) -> P {
        P { key: [0, 0], b: BS::USIZE }
    }
    pub fn e(&self, inp: &[u8]) -> [u8; MAXB] {
        self.p().e(inp)
    }
    pub fn d(&self, inp: &[u8]) -> [u8; MAXB] {
        self.p().d(inp)
    }
}

/// Concrete, cheap, keyed byte-wise bijection (y[i] = rotl(x[i] + k0, 3) ^ k1) for LONG-CALL
/// harnesses: many cipher calls in one harness are out of reach of the uninterpreted
/// permutation (quadratic table).  A pass with this cipher is a statement about this cipher
/// only; data, IV and key stay symbolic.  Encrypt-only like `UfE`.
#[derive(Clone)]
pub struct Lin<BS: ArraySize, PAR: ArraySize> {
    pub key: [u8; 2],
    _p: PhantomData<(BS, PAR)>,
}
#[inline(always)]
pub fn lin_byte(key: [u8; 2], x: u8) -> u8 {
    x.wrapping_add(key[0]).rotate_left(3) ^ key[1]
}
impl<BS: ArraySize, PAR: ArraySize> Lin<BS, PAR> {
    pub fn with_key(key: [u8; 2]) -> Self {
        Self { key, _p: PhantomData }
    }
}
impl<BS: BlockSizes, PAR: ArraySize> BlockSizeUser for Lin<BS, PAR> {
    type BlockSize = BS;
}
impl<BS: BlockSizes, PAR: ArraySize> ParBlocksSizeUser for Lin<BS, PAR> {
    type ParBlocksSize = PAR;
}
impl<BS: BlockSizes, PAR: ArraySize> BlockCipherEncBackend for Lin<BS, PAR> {
    #[inline(always)]
    fn encrypt_block(&self, mut block: InOut<'_, '_, Block<Self>>) {
        let mut y = [0u8; MAXB];
        {
            let x = block.get_in().as_slice();
            let mut i = 0;
            while i < BS::USIZE {
                y[i] = lin_byte(self.key, x[i]);
                i += 1;
            }
        }
        let out = block.get_out().as_mut_slice();
        let mut i = 0;
        while i < BS::USIZE {
            out[i] = y[i];
            i += 1;
        }
    }
}
impl<BS: BlockSizes, PAR: ArraySize> BlockCipherEncrypt for Lin<BS, PAR> {
    fn encrypt_with_backend(&self, f: impl BlockCipherEncClosure<BlockSize = BS>) {
        f.call(self)
    }
}
impl<BS: BlockSizes, PAR: ArraySize> AlgorithmName for Lin<BS, PAR> {
    fn write_alg_name(f: &mut fmt::Formatter<'_>) -> fmt::Result {
        f.write_str("Lin")
    }
}

macro_rules! impl_enc {
    ($t:ident) => {
        impl<BS: BlockSizes, PAR: ArraySize> BlockSizeUser for $t<BS, PAR> {
            type BlockSize = BS;
        }
        impl<BS: BlockSizes, PAR: ArraySize> ParBlocksSizeUser for $t<BS, PAR> {
            type ParBlocksSize = PAR;
        }
        impl<BS: BlockSizes, PAR: ArraySize> BlockCipherEncBackend for $t<BS, PAR> {
            #[inline(always)]
            fn encrypt_block(&self, mut block: InOut<'_, '_, Block<Self>>) {
                let y = self.p().e(block.get_in().as_slice());
                let out = block.get_out().as_mut_slice();
                let mut i = 0;
                while i < BS::USIZE {
                    out[i] = y[i];
                    i += 1;
                }
            }
        }
        impl<BS: BlockSizes, PAR: ArraySize> BlockCipherEncrypt for $t<BS, PAR> {
            fn encrypt_with_backend(&self, f: impl BlockCipherEncClosure<BlockSize = BS>) {
                f.call(self)
            }
        }
        impl<BS: BlockSizes, PAR: ArraySize> AlgorithmName for $t<BS, PAR> {
            fn write_alg_name(f: &mut fmt::Formatter<'_>) -> fmt::Result {
                f.write_str("Uf")
            }
        }
    };
}
macro_rules! impl_dec {
    ($t:ident) => {
        impl<BS: BlockSizes, PAR: ArraySize> BlockCipherDecBackend for $t<BS, PAR> {
            #[inline(always)]
            fn decrypt_block(&self, mut block: InOut<'_, '_, Block<Self>>) {
                let x = self.p().d(block.get_in().as_slice());
                let out = block.get_out().as_mut_slice();
                let mut i = 0;
                while i < BS::USIZE {
                    out[i] = x[i];
                    i += 1;
                }
            }
        }
        impl<BS: BlockSizes, PAR: ArraySize> BlockCipherDecrypt for $t<BS, PAR> {
            fn decrypt_with_backend(&self, f: impl BlockCipherDecClosure<BlockSize = BS>) {
                f.call(self)
            }
        }
    };
}
macro_rules! impl_keyinit {
    ($t:ident) => {
        impl<BS: BlockSizes, PAR: ArraySize> KeySizeUser for $t<BS, PAR> {
            type KeySize = U2;
        }
        impl<BS: BlockSizes, PAR: ArraySize> KeyInit for $t<BS, PAR> {
            fn new(key: &Key<Self>) -> Self {
                Self::with_key([key[0], key[1]])
            }
        }
    };
}
impl_enc!(Uf);
impl_dec!(Uf);
impl_keyinit!(Uf);
impl_enc!(UfE);
impl_keyinit!(UfE);
impl_enc!(UfZ);
impl_dec!(UfZ);

/// `&[u8]` of exactly N bytes viewed as a hybrid-array block (pointer cast, no copy).
#[inline(always)]
pub fn blk<N: ArraySize>(s: &[u8]) -> &Array<u8, N> {
    <&Array<u8, N>>::try_from(s).unwrap()
}
#[inline(always)]
pub fn blk_mut<N: ArraySize>(s: &mut [u8]) -> &mut Array<u8, N> {
    <&mut Array<u8, N>>::try_from(s).unwrap()
}
/// Whole-block view of a byte buffer (pointer cast, no copy).
#[inline(always)]
pub fn blocks_mut<N: ArraySize>(s: &mut [u8]) -> &mut [Array<u8, N>] {
    let (b, t) = Array::<u8, N>::slice_as_chunks_mut(s);
    assert!(t.is_empty());
    b
}
#[inline(always)]
pub fn blocks<N: ArraySize>(s: &[u8]) -> &[Array<u8, N>] {
    let (b, t) = Array::<u8, N>::slice_as_chunks(s);
    assert!(t.is_empty());
    b
}

/// Fixed-size `fmt::Write` sink for Debug / algorithm-name text.
pub const SINK: usize = 200;
pub struct Sink {
    pub buf: [u8; SINK],
    pub n: usize,
    pub overflow: bool,
}
impl Sink {
    pub fn new() -> Self {
        Sink { buf: [0; SINK], n: 0, overflow: false }
    }
    pub fn is(&self, s: &str) -> bool {
        let b = s.as_bytes();
        if self.overflow || self.n != b.len() {
            return false;
        }
        let mut i = 0;
        let mut ok = true;
        while i < b.len() {
            ok &= self.buf[i] == b[i];
            i += 1;
        }
        ok
    }
}
impl fmt::Write for Sink {
    fn write_str(&mut self, s: &str) -> fmt::Result {
        let b = s.as_bytes();
        let mut i = 0;
        while i < b.len() {
            if self.n < SINK {
                self.buf[self.n] = b[i];
                self.n += 1;
            } else {
                self.overflow = true;
            }
            i += 1;
        }
        Ok(())
    }
}
