//! C14: alternative front-ends to the same mode are interchangeable.
use crate::prelude::*;
use cipher::{BlockCipherDecrypt, BlockCipherEncrypt};
use cts::{Decrypt, Encrypt};

/// Buffered CFB == block-level CFB == one-shot CFB (L = whole blocks + tail).
macro_rules! cfb_fronts {
    ($name:ident, $unw:expr, $buf:ident, $ty:ident, $dir:ident, $call:ident, $bs:ty, $b:expr, $par:ty, $n:expr, $tail:expr) => {
        #[kani::proof]
        #[kani::unwind($unw)]
        pub fn $name() {
            const B: usize = $b;
            const W: usize = B * $n;
            const L: usize = W + $tail;
            let key: [u8; 2] = kani::any();
            let iv: [u8; B] = kani::any();
            let msg: [u8; L] = kani::any();
            let c = UfE::<$bs, $par>::with_key(key);
            // one-shot
            let mut a = msg;
            do_oneshot!($dir, cfb_mode::$ty::inner_iv_init(c.clone(), blk::<$bs>(&iv)), &mut a[..]);
            // buffered, in several calls: empty, one whole block, empty (on a block boundary), 1 byte, rest
            let mut b = msg;
            let mut bm = cfb_mode::$buf::inner_iv_init(c.clone(), blk::<$bs>(&iv));
            {
                let (p0, r) = b.split_at_mut(0);
                let (p1, r) = r.split_at_mut(B);
                let (pe, r) = r.split_at_mut(0);
                let (p2, p3) = r.split_at_mut(1);
                bm.$call(p0);
                bm.$call(p1);
                bm.$call(pe);
                bm.$call(p2);
                bm.$call(p3);
            }
            // block level on the whole blocks
            let mut d = msg;
            let mut m = cfb_mode::$ty::inner_iv_init(c.clone(), blk::<$bs>(&iv));
            do_blocks!($dir, m, blocks_mut::<$bs>(&mut d[..W]));
            let mut i = 0;
            while i < L {
                assert!(a[i] == b[i], "buffered CFB differs from one-shot CFB");
                if i < W {
                    assert!(a[i] == d[i], "block-level CFB differs from one-shot CFB");
                }
                i += 1;
            }
            kani::cover!(true);
        }
    };
}

/// OFB: block encryptor == block decryptor == keystream core == byte-level stream cipher.
macro_rules! ofb_fronts {
    ($name:ident, $unw:expr, $bs:ty, $b:expr, $par:ty, $n:expr) => {
        #[kani::proof]
        #[kani::unwind($unw)]
        pub fn $name() {
            const B: usize = $b;
            const L: usize = B * $n;
            let key: [u8; 2] = kani::any();
            let iv: [u8; B] = kani::any();
            let msg: [u8; L] = kani::any();
            let c = UfE::<$bs, $par>::with_key(key);
            let mk = || ofb::OfbCore::inner_iv_init(c.clone(), blk::<$bs>(&iv));
            let mut a = msg;
            let mut x = mk();
            x.encrypt_blocks(blocks_mut::<$bs>(&mut a));
            let mut b = msg;
            let mut y = mk();
            y.decrypt_blocks(blocks_mut::<$bs>(&mut b));
            let mut d = msg;
            let mut z = mk();
            z.apply_keystream_blocks(blocks_mut::<$bs>(&mut d));
            let mut e = msg;
            let mut w = ofb::Ofb::<UfE<$bs, $par>>::new(&key.into(), blk::<$bs>(&iv));
            w.apply_keystream(&mut e);
            let mut i = 0;
            while i < L {
                assert!(a[i] == b[i] && a[i] == d[i] && a[i] == e[i], "OFB faces disagree");
                i += 1;
            }
            let (s1, s2, s3) = (x.iv_state(), y.iv_state(), z.iv_state());
            let mut j = 0;
            while j < B {
                assert!(s1[j] == s2[j] && s1[j] == s3[j], "OFB faces leave different states");
                j += 1;
            }
            kani::cover!(true);
        }
    };
}

/// CTR core driven block-wise == byte-level alias (from key+IV bytes), at offset 0 and after a seek.
macro_rules! ctr_fronts {
    ($name:ident, $unw:expr, $alias:ident, $flavor:ident, $bs:ty, $b:expr, $par:ty, $n:expr, $blk0:expr) => {
        #[kani::proof]
        #[kani::unwind($unw)]
        pub fn $name() {
            const B: usize = $b;
            const L: usize = B * $n;
            let key: [u8; 2] = kani::any();
            let iv: [u8; B] = kani::any();
            let msg: [u8; L] = kani::any();
            let c = UfE::<$bs, $par>::with_key(key);
            let mut a = msg;
            let mut core = ctr::CtrCore::<_, ctr::flavors::$flavor>::inner_iv_init(c.clone(), blk::<$bs>(&iv));
            core.set_block_pos($blk0 as _);
            core.apply_keystream_blocks(blocks_mut::<$bs>(&mut a));
            let mut b = msg;
            let mut s = ctr::$alias::<UfE<$bs, $par>>::new(&key.into(), blk::<$bs>(&iv));
            s.seek(($blk0 as u64) * B as u64);
            // bytes: 1, then the rest (exercises the buffered path)
            {
                let (p1, p2) = b.split_at_mut(1);
                s.apply_keystream(p1);
                s.apply_keystream(p2);
            }
            let mut i = 0;
            while i < L {
                assert!(a[i] == b[i], "block-wise CTR core differs from the byte-level cipher");
                i += 1;
            }
            kani::cover!(true);
        }
    };
}
macro_rules! belt_fronts {
    ($name:ident, $unw:expr, $par:ty, $n:expr, $blk0:expr) => {
        #[kani::proof]
        #[kani::unwind($unw)]
        pub fn $name() {
            const B: usize = 16;
            const L: usize = B * $n;
            let key: [u8; 2] = kani::any();
            let iv: [u8; B] = kani::any();
            let msg: [u8; L] = kani::any();
            let c = UfE::<U16, $par>::with_key(key);
            let mut a = msg;
            let mut core = belt_ctr::BeltCtrCore::inner_iv_init(c.clone(), blk::<U16>(&iv));
            core.set_block_pos($blk0 as _);
            core.apply_keystream_blocks(blocks_mut::<U16>(&mut a));
            let mut b = msg;
            let mut s = crate::common::belt_alias::<$par>(key, &iv);
            s.seek(($blk0 as u64) * B as u64);
            {
                let (p1, p2) = b.split_at_mut(5);
                s.apply_keystream(p1);
                s.apply_keystream(p2);
            }
            let mut i = 0;
            while i < L {
                assert!(a[i] == b[i], "block-wise BelT-CTR core differs from the byte-level cipher");
                i += 1;
            }
            kani::cover!(true);
        }
    };
}

/// On whole blocks: CBC-CS1 == CBC-CS2 == plain CBC; CBC-CS3 == plain CBC with the last two
/// blocks exchanged (a single block: no exchange).  Both directions.
macro_rules! cts_cbc_fronts {
    ($name:ident, $unw:expr, $bs:ty, $b:expr, $par:ty, $n:expr) => {
        #[kani::proof]
        #[kani::unwind($unw)]
        pub fn $name() {
            const B: usize = $b;
            const N: usize = $n;
            const L: usize = B * N;
            let key: [u8; 2] = kani::any();
            let iv: [u8; B] = kani::any();
            let msg: [u8; L] = kani::any();
            let c = Uf::<$bs, $par>::with_key(key);
            // plain CBC
            let mut p = msg;
            cbc::Encryptor::inner_iv_init(c.clone(), blk::<$bs>(&iv)).encrypt_blocks(blocks_mut::<$bs>(&mut p));
            let mut q = msg;
            cbc::Decryptor::inner_iv_init(c.clone(), blk::<$bs>(&iv)).decrypt_blocks(blocks_mut::<$bs>(&mut q));
            // CTS encrypt
            let mut e1 = msg;
            let mut e2 = msg;
            let mut e3 = msg;
            assert!(cts::CbcCs1::inner_iv_init(c.clone(), blk::<$bs>(&iv)).encrypt(&mut e1).is_ok());
            assert!(cts::CbcCs2::inner_iv_init(c.clone(), blk::<$bs>(&iv)).encrypt(&mut e2).is_ok());
            assert!(cts::CbcCs3::inner_iv_init(c.clone(), blk::<$bs>(&iv)).encrypt(&mut e3).is_ok());
            // CTS decrypt of the same bytes read as ciphertext; for CS3 feed the exchanged form
            let mut d1 = msg;
            let mut d2 = msg;
            let mut d3 = msg;
            if N >= 2 {
                let mut j = 0;
                while j < B {
                    d3[L - 2 * B + j] = msg[L - B + j];
                    d3[L - B + j] = msg[L - 2 * B + j];
                    j += 1;
                }
            }
            assert!(cts::CbcCs1::inner_iv_init(c.clone(), blk::<$bs>(&iv)).decrypt(&mut d1).is_ok());
            assert!(cts::CbcCs2::inner_iv_init(c.clone(), blk::<$bs>(&iv)).decrypt(&mut d2).is_ok());
            assert!(cts::CbcCs3::inner_iv_init(c.clone(), blk::<$bs>(&iv)).decrypt(&mut d3).is_ok());
            let mut i = 0;
            while i < L {
                assert!(e1[i] == p[i], "CBC-CS1 on whole blocks differs from plain CBC");
                assert!(e2[i] == p[i], "CBC-CS2 on whole blocks differs from plain CBC");
                let k = if N >= 2 && i >= L - 2 * B { if i < L - B { i + B } else { i - B } } else { i };
                assert!(e3[i] == p[k], "CBC-CS3 on whole blocks is not plain CBC with the last two blocks exchanged");
                assert!(d1[i] == q[i], "CBC-CS1 decryption on whole blocks differs from plain CBC");
                assert!(d2[i] == q[i], "CBC-CS2 decryption on whole blocks differs from plain CBC");
                assert!(d3[i] == q[i], "CBC-CS3 decryption on whole blocks differs from plain CBC of the exchanged input");
                i += 1;
            }
            kani::cover!(true);
        }
    };
}
/// ECB variants on whole blocks == raw block encryption / decryption (CS3: exchanged).
macro_rules! cts_ecb_fronts {
    ($name:ident, $unw:expr, $bs:ty, $b:expr, $par:ty, $n:expr) => {
        #[kani::proof]
        #[kani::unwind($unw)]
        pub fn $name() {
            const B: usize = $b;
            const N: usize = $n;
            const L: usize = B * N;
            let key: [u8; 2] = kani::any();
            let msg: [u8; L] = kani::any();
            let c = Uf::<$bs, $par>::with_key(key);
            let mut p = msg;
            c.encrypt_blocks(blocks_mut::<$bs>(&mut p));
            let mut q = msg;
            c.decrypt_blocks(blocks_mut::<$bs>(&mut q));
            let mut e1 = msg;
            let mut e2 = msg;
            let mut e3 = msg;
            assert!(cts::EcbCs1::inner_init(c.clone()).encrypt(&mut e1).is_ok());
            assert!(cts::EcbCs2::inner_init(c.clone()).encrypt(&mut e2).is_ok());
            assert!(cts::EcbCs3::inner_init(c.clone()).encrypt(&mut e3).is_ok());
            let mut d1 = msg;
            let mut d2 = msg;
            let mut d3 = msg;
            if N >= 2 {
                let mut j = 0;
                while j < B {
                    d3[L - 2 * B + j] = msg[L - B + j];
                    d3[L - B + j] = msg[L - 2 * B + j];
                    j += 1;
                }
            }
            assert!(cts::EcbCs1::inner_init(c.clone()).decrypt(&mut d1).is_ok());
            assert!(cts::EcbCs2::inner_init(c.clone()).decrypt(&mut d2).is_ok());
            assert!(cts::EcbCs3::inner_init(c.clone()).decrypt(&mut d3).is_ok());
            let mut i = 0;
            while i < L {
                assert!(e1[i] == p[i], "ECB-CS1 on whole blocks differs from raw block encryption");
                assert!(e2[i] == p[i], "ECB-CS2 on whole blocks differs from raw block encryption");
                let k = if N >= 2 && i >= L - 2 * B { if i < L - B { i + B } else { i - B } } else { i };
                assert!(e3[i] == p[k], "ECB-CS3 on whole blocks is not raw encryption with the last two blocks exchanged");
                assert!(d1[i] == q[i] && d2[i] == q[i], "ECB-CS1/2 decryption on whole blocks differs from raw decryption");
                assert!(d3[i] == q[i], "ECB-CS3 decryption on whole blocks differs from raw decryption of the exchanged input");
                i += 1;
            }
            kani::cover!(true);
        }
    };
}

/// T::new(key, iv) == T::new_from_slices == T::inner_iv_init(C::new(key), iv): same output on 2 blocks.
macro_rules! ctor_blocks {
    ($name:ident, $unw:expr, $ty:ty, $cty:ty, $dir:ident, $ivbs:ty, $ivlen:expr, $mbs:ty, $mb:expr) => {
        #[kani::proof]
        #[kani::unwind($unw)]
        pub fn $name() {
            const L: usize = 2 * $mb;
            let key: [u8; 2] = kani::any();
            let iv: [u8; $ivlen] = kani::any();
            let msg: [u8; L] = kani::any();
            let mut a = msg;
            let mut b = msg;
            let mut d = msg;
            let mut m1 = <$ty>::new(&key.into(), blk::<$ivbs>(&iv));
            let mut m2 = <$ty>::new_from_slices(&key, &iv).unwrap();
            let mut m3 = <$ty>::inner_iv_init(<$cty>::new(&key.into()), blk::<$ivbs>(&iv));
            do_blocks!($dir, m1, blocks_mut::<$mbs>(&mut a));
            do_blocks!($dir, m2, blocks_mut::<$mbs>(&mut b));
            do_blocks!($dir, m3, blocks_mut::<$mbs>(&mut d));
            let mut i = 0;
            while i < L {
                assert!(a[i] == b[i] && a[i] == d[i], "construction paths disagree");
                i += 1;
            }
            kani::cover!(true);
        }
    };
}
macro_rules! ctor_stream {
    ($name:ident, $unw:expr, $ty:ty, $core:ty, $cty:ty, $ivbs:ty, $ivlen:expr) => {
        #[kani::proof]
        #[kani::unwind($unw)]
        pub fn $name() {
            const L: usize = $ivlen + 1;
            let key: [u8; 2] = kani::any();
            let iv: [u8; $ivlen] = kani::any();
            let msg: [u8; L] = kani::any();
            let mut a = msg;
            let mut b = msg;
            let mut d = msg;
            let mut m1 = <$ty>::new(&key.into(), blk::<$ivbs>(&iv));
            let mut m2 = <$ty>::new_from_slices(&key, &iv).unwrap();
            let mut m3 = StreamCipherCoreWrapper::from_core(<$core>::inner_iv_init(<$cty>::new(&key.into()), blk::<$ivbs>(&iv)));
            m1.apply_keystream(&mut a);
            m2.apply_keystream(&mut b);
            m3.apply_keystream(&mut d);
            let mut i = 0;
            while i < L {
                assert!(a[i] == b[i] && a[i] == d[i], "construction paths disagree");
                i += 1;
            }
            kani::cover!(true);
        }
    };
}
macro_rules! ctor_cts {
    ($name:ident, $unw:expr, $ty:ident, $bs:ty, $b:expr, cbc) => {
        #[kani::proof]
        #[kani::unwind($unw)]
        pub fn $name() {
            const L: usize = 2 * $b + 1;
            let key: [u8; 2] = kani::any();
            let iv: [u8; $b] = kani::any();
            let msg: [u8; L] = kani::any();
            let mut a = msg;
            let mut b = msg;
            let mut d = msg;
            assert!(cts::$ty::<Uf<$bs, U1>>::new(&key.into(), blk::<$bs>(&iv)).encrypt(&mut a).is_ok());
            assert!(cts::$ty::<Uf<$bs, U1>>::new_from_slices(&key, &iv).unwrap().encrypt(&mut b).is_ok());
            assert!(cts::$ty::inner_iv_init(Uf::<$bs, U1>::new(&key.into()), blk::<$bs>(&iv)).encrypt(&mut d).is_ok());
            let mut i = 0;
            while i < L {
                assert!(a[i] == b[i] && a[i] == d[i], "construction paths disagree");
                i += 1;
            }
            kani::cover!(true);
        }
    };
    ($name:ident, $unw:expr, $ty:ident, $bs:ty, $b:expr, ecb) => {
        #[kani::proof]
        #[kani::unwind($unw)]
        pub fn $name() {
            const L: usize = 2 * $b + 1;
            let key: [u8; 2] = kani::any();
            let msg: [u8; L] = kani::any();
            let mut a = msg;
            let mut b = msg;
            let mut d = msg;
            assert!(cts::$ty::<Uf<$bs, U1>>::new(&key.into()).encrypt(&mut a).is_ok());
            assert!(cts::$ty::<Uf<$bs, U1>>::new_from_slice(&key).unwrap().encrypt(&mut b).is_ok());
            assert!(cts::$ty::inner_init(Uf::<$bs, U1>::new(&key.into())).encrypt(&mut d).is_ok());
            let mut i = 0;
            while i < L {
                assert!(a[i] == b[i] && a[i] == d[i], "construction paths disagree");
                i += 1;
            }
            kani::cover!(true);
        }
    };
}

// ---- quick -----------------------------------------------------------------------------------
cfb_fronts!(cfb_enc_fronts_b2_w2_n3_t1, 48, BufEncryptor, Encryptor, enc, encrypt, U2, 2, U2, 3, 1);
cfb_fronts!(cfb_dec_fronts_b2_w2_n3_t1, 48, BufDecryptor, Decryptor, dec, decrypt, U2, 2, U2, 3, 1);
ofb_fronts!(ofb_fronts_b2_w2_n3, 48, U2, 2, U2, 3);
ctr_fronts!(ctr32be_fronts_b4_w2_n3, 48, Ctr32BE, Ctr32BE, U4, 4, U2, 3, 0u32);
ctr_fronts!(ctr32le_fronts_b4_w2_n3_at5, 48, Ctr32LE, Ctr32LE, U4, 4, U2, 3, 5u32);
ctr_fronts!(ctr64be_fronts_b8_w2_n3, 64, Ctr64BE, Ctr64BE, U8, 8, U2, 3, 0u64);
ctr_fronts!(ctr64le_fronts_b8_w1_n2_at3, 64, Ctr64LE, Ctr64LE, U8, 8, U1, 2, 3u64);
ctr_fronts!(ctr128be_fronts_b16_w1_n2, 80, Ctr128BE, Ctr128BE, U16, 16, U1, 2, 0u128);
ctr_fronts!(ctr128le_fronts_b16_w2_n3_at2, 80, Ctr128LE, Ctr128LE, U16, 16, U2, 3, 2u128);
belt_fronts!(belt_fronts_w2_n3, 80, U2, 3, 0u128);
cts_cbc_fronts!(cts_cbc_whole_b2_w2_n1, 48, U2, 2, U2, 1);
cts_cbc_fronts!(cts_cbc_whole_b2_w2_n2, 48, U2, 2, U2, 2);
cts_cbc_fronts!(cts_cbc_whole_b2_w2_n3, 48, U2, 2, U2, 3);
cts_cbc_fronts!(cts_cbc_whole_b1_w2_n7, 64, U1, 1, U2, 7);
cts_ecb_fronts!(cts_ecb_whole_b1_w2_n7, 64, U1, 1, U2, 7);
cts_ecb_fronts!(cts_ecb_whole_b2_w2_n1, 48, U2, 2, U2, 1);
cts_ecb_fronts!(cts_ecb_whole_b2_w2_n2, 48, U2, 2, U2, 2);
cts_ecb_fronts!(cts_ecb_whole_b2_w2_n3, 48, U2, 2, U2, 3);
ctor_blocks!(ctor_cbc_enc, 48, cbc::Encryptor<Uf<U2, U1>>, Uf<U2, U1>, enc, U2, 2, U2, 2);
ctor_blocks!(ctor_cbc_dec, 48, cbc::Decryptor<Uf<U2, U1>>, Uf<U2, U1>, dec, U2, 2, U2, 2);
ctor_blocks!(ctor_pcbc_enc, 48, pcbc::Encryptor<Uf<U2, U1>>, Uf<U2, U1>, enc, U2, 2, U2, 2);
ctor_blocks!(ctor_pcbc_dec, 48, pcbc::Decryptor<Uf<U2, U1>>, Uf<U2, U1>, dec, U2, 2, U2, 2);
ctor_blocks!(ctor_ige_enc, 48, ige::Encryptor<Uf<U2, U1>>, Uf<U2, U1>, enc, U4, 4, U2, 2);
ctor_blocks!(ctor_ige_dec, 48, ige::Decryptor<Uf<U2, U1>>, Uf<U2, U1>, dec, U4, 4, U2, 2);
ctor_blocks!(ctor_cfb_enc, 48, cfb_mode::Encryptor<UfE<U2, U1>>, UfE<U2, U1>, enc, U2, 2, U2, 2);
ctor_blocks!(ctor_cfb_dec, 48, cfb_mode::Decryptor<UfE<U2, U1>>, UfE<U2, U1>, dec, U2, 2, U2, 2);
ctor_blocks!(ctor_cfb8_enc, 48, cfb8::Encryptor<UfE<U2, U1>>, UfE<U2, U1>, enc, U2, 2, U1, 1);
ctor_blocks!(ctor_cfb8_dec, 48, cfb8::Decryptor<UfE<U2, U1>>, UfE<U2, U1>, dec, U2, 2, U1, 1);
ctor_blocks!(ctor_ofb_core, 48, ofb::OfbCore<UfE<U2, U1>>, UfE<U2, U1>, enc, U2, 2, U2, 2);
ctor_stream!(ctor_ofb, 48, ofb::Ofb<UfE<U2, U1>>, ofb::OfbCore<UfE<U2, U1>>, UfE<U2, U1>, U2, 2);
ctor_stream!(ctor_ctr32be, 48, ctr::Ctr32BE<UfE<U4, U1>>, ctr::CtrCore<UfE<U4, U1>, ctr::flavors::Ctr32BE>, UfE<U4, U1>, U4, 4);
ctor_stream!(ctor_ctr64le, 64, ctr::Ctr64LE<UfE<U8, U1>>, ctr::CtrCore<UfE<U8, U1>, ctr::flavors::Ctr64LE>, UfE<U8, U1>, U8, 8);
ctor_stream!(ctor_ctr128be, 80, ctr::Ctr128BE<UfE<U16, U1>>, ctr::CtrCore<UfE<U16, U1>, ctr::flavors::Ctr128BE>, UfE<U16, U1>, U16, 16);
ctor_stream!(ctor_belt, 80, belt_ctr::BeltCtr<UfE<U16, U1>>, belt_ctr::BeltCtrCore<UfE<U16, U1>>, UfE<U16, U1>, U16, 16);
ctor_cts!(ctor_cbc_cs1, 48, CbcCs1, U2, 2, cbc);
ctor_cts!(ctor_cbc_cs3, 48, CbcCs3, U2, 2, cbc);
ctor_cts!(ctor_ecb_cs2, 48, EcbCs2, U2, 2, ecb);

// ---- thorough --------------------------------------------------------------------------------
cfb_fronts!(t_cfb_enc_fronts_b4_w3_n4_t3, 64, BufEncryptor, Encryptor, enc, encrypt, U4, 4, U3, 4, 3);
cfb_fronts!(t_cfb_dec_fronts_b4_w3_n4_t3, 64, BufDecryptor, Decryptor, dec, decrypt, U4, 4, U3, 4, 3);
cfb_fronts!(t_cfb_dec_fronts_b3_w2_n3_t0, 48, BufDecryptor, Decryptor, dec, decrypt, U3, 3, U2, 3, 0);
ofb_fronts!(t_ofb_fronts_b4_w3_n4, 64, U4, 4, U3, 4);
ctr_fronts!(t_ctr32be_fronts_b16_w2_n3_at7, 100, Ctr32BE, Ctr32BE, U16, 16, U2, 3, 7u32);
ctr_fronts!(t_ctr64be_fronts_b16_w3_n4_at1, 100, Ctr64BE, Ctr64BE, U16, 16, U3, 4, 1u64);
belt_fronts!(t_belt_fronts_w3_n4_at9, 100, U3, 4, 9u128);
cts_cbc_fronts!(t_cts_cbc_whole_b4_w3_n4, 64, U4, 4, U3, 4);
cts_cbc_fronts!(t_cts_cbc_whole_b1_w2_n3, 48, U1, 1, U2, 3);
cts_cbc_fronts!(t_cts_cbc_whole_b4_w1_n1, 48, U4, 4, U1, 1);
cts_ecb_fronts!(t_cts_ecb_whole_b4_w3_n4, 64, U4, 4, U3, 4);
cts_ecb_fronts!(t_cts_ecb_whole_b1_w2_n3, 48, U1, 1, U2, 3);
cts_ecb_fronts!(t_cts_ecb_whole_b4_w1_n1, 48, U4, 4, U1, 1);
ctor_stream!(t_ctor_ctr32le, 48, ctr::Ctr32LE<UfE<U4, U1>>, ctr::CtrCore<UfE<U4, U1>, ctr::flavors::Ctr32LE>, UfE<U4, U1>, U4, 4);
ctor_stream!(t_ctor_ctr64be, 64, ctr::Ctr64BE<UfE<U8, U1>>, ctr::CtrCore<UfE<U8, U1>, ctr::flavors::Ctr64BE>, UfE<U8, U1>, U8, 8);
ctor_stream!(t_ctor_ctr128le, 80, ctr::Ctr128LE<UfE<U16, U1>>, ctr::CtrCore<UfE<U16, U1>, ctr::flavors::Ctr128LE>, UfE<U16, U1>, U16, 16);
ctor_cts!(t_ctor_cbc_cs2, 48, CbcCs2, U2, 2, cbc);
ctor_cts!(t_ctor_ecb_cs1, 48, EcbCs1, U2, 2, ecb);
ctor_cts!(t_ctor_ecb_cs3, 48, EcbCs3, U2, 2, ecb);
