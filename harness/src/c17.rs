//! C17: mode objects do not leak chaining state via Debug output or dropped memory.
//!
//! Debug: two objects of the same type with independent symbolic key, IV, position and processed
//! data are formatted into a fixed sink; the texts must be byte-identical (non-interference).
//! Drop (feature zeroize): the object lives in a MaybeUninit, is driven through a symbolic
//! history, dropped in place, and its storage is read back.  With a zero-sized cipher and a
//! padding-free instantiation every byte must be 0 (for the buffered CFB types: every byte except
//! the byte cursor `pos`, which both runs share, must be identical between two runs with
//! independent IV/data and the block bytes must be 0).
use crate::prelude::*;
use core::fmt::Write;
use core::mem::{size_of, MaybeUninit};

fn fmt_debug<T: core::fmt::Debug>(t: &T) -> Sink {
    // both the plain and the alternate ("pretty") form go into the same sink
    let mut s = Sink::new();
    let r = write!(s, "{:?}|{:#?}", t, t);
    assert!(r.is_ok());
    s
}
fn fmt_debug_plain<T: core::fmt::Debug>(t: &T) -> Sink {
    let mut s = Sink::new();
    let r = write!(s, "{:?}", t);
    assert!(r.is_ok());
    s
}
fn same_text(a: &Sink, b: &Sink) {
    assert!(!a.overflow && !b.overflow, "harness precondition: Debug text fits the 200-byte sink");
    assert!(a.n == b.n, "Debug text length depends on key / IV / position / data");
    let mut i = 0;
    while i < SINK {
        assert!(a.buf[i] == b.buf[i], "Debug text depends on key / IV / position / data");
        i += 1;
    }
}

/// Block-mode objects: new from (key, iv) symbolic, one block processed, Debug compared.
macro_rules! debug_block {
    ($name:ident, $unw:expr, $ty:ty, $dir:ident, $ivbs:ty, $ivlen:expr, $mbs:ty, $mb:expr) => {
        #[kani::proof]
        #[kani::unwind($unw)]
        pub fn $name() {
            let k1: [u8; 2] = kani::any();
            let k2: [u8; 2] = kani::any();
            let iv1: [u8; $ivlen] = kani::any();
            let iv2: [u8; $ivlen] = kani::any();
            let mut d1: [u8; $mb] = kani::any();
            let mut d2: [u8; 2 * $mb] = kani::any();
            let mut m1 = <$ty>::new(&k1.into(), blk::<$ivbs>(&iv1));
            let mut m2 = <$ty>::new(&k2.into(), blk::<$ivbs>(&iv2));
            do_blocks!($dir, m1, blocks_mut::<$mbs>(&mut d1));
            do_blocks!($dir, m2, blocks_mut::<$mbs>(&mut d2));
            let (s1, s2) = (fmt_debug(&m1), fmt_debug(&m2));
            same_text(&s1, &s2);
            kani::cover!(true);
        }
    };
}
/// Byte-level objects (buffered CFB; stream wrappers in the kf_ variants).
macro_rules! debug_bytes {
    ($name:ident, $unw:expr, $ty:ty, $call:ident, $ivbs:ty, $ivlen:expr, $n1:expr, $n2:expr) => {
        #[kani::proof]
        #[kani::unwind($unw)]
        pub fn $name() {
            let k1: [u8; 2] = kani::any();
            let k2: [u8; 2] = kani::any();
            let iv1: [u8; $ivlen] = kani::any();
            let iv2: [u8; $ivlen] = kani::any();
            let mut d1: [u8; $n1] = kani::any();
            let mut d2: [u8; $n2] = kani::any();
            let mut m1 = <$ty>::new(&k1.into(), blk::<$ivbs>(&iv1));
            let mut m2 = <$ty>::new(&k2.into(), blk::<$ivbs>(&iv2));
            m1.$call(&mut d1);
            m2.$call(&mut d2);
            let (s1, s2) = (fmt_debug(&m1), fmt_debug(&m2));
            same_text(&s1, &s2);
            kani::cover!(true);
        }
    };
}
/// Known-finding variant for the byte-level aliases: plain {:?} only (cheaper).
macro_rules! debug_bytes_kf {
    ($name:ident, $unw:expr, $ty:ty, $call:ident, $ivbs:ty, $ivlen:expr, $n1:expr, $n2:expr) => {
        #[kani::proof]
        #[kani::unwind($unw)]
        pub fn $name() {
            let k1: [u8; 2] = kani::any();
            let k2: [u8; 2] = kani::any();
            let iv1: [u8; $ivlen] = kani::any();
            let iv2: [u8; $ivlen] = kani::any();
            let mut d1: [u8; $n1] = kani::any();
            let mut d2: [u8; $n2] = kani::any();
            let mut m1 = <$ty>::new(&k1.into(), blk::<$ivbs>(&iv1));
            let mut m2 = <$ty>::new(&k2.into(), blk::<$ivbs>(&iv2));
            m1.$call(&mut d1);
            m2.$call(&mut d2);
            let (s1, s2) = (fmt_debug_plain(&m1), fmt_debug_plain(&m2));
            same_text(&s1, &s2);
            kani::cover!(true);
        }
    };
}
/// Seekable cores: symbolic block positions as well.
macro_rules! debug_core {
    ($name:ident, $unw:expr, $ty:ty, $ct:ty, $ivbs:ty, $ivlen:expr) => {
        #[kani::proof]
        #[kani::unwind($unw)]
        pub fn $name() {
            let k1: [u8; 2] = kani::any();
            let k2: [u8; 2] = kani::any();
            let iv1: [u8; $ivlen] = kani::any();
            let iv2: [u8; $ivlen] = kani::any();
            let mut m1 = <$ty>::new(&k1.into(), blk::<$ivbs>(&iv1));
            let mut m2 = <$ty>::new(&k2.into(), blk::<$ivbs>(&iv2));
            let p1: $ct = kani::any();
            let p2: $ct = kani::any();
            m1.set_block_pos(p1 as _);
            m2.set_block_pos(p2 as _);
            let mut b: [u8; $ivlen] = kani::any();
            m2.write_keystream_block(blk_mut::<$ivbs>(&mut b));
            let (s1, s2) = (fmt_debug(&m1), fmt_debug(&m2));
            same_text(&s1, &s2);
            kani::cover!(true);
        }
    };
}

/// Concrete-values variants of the Debug checks: two objects with fixed, different key / IV / data
/// (positions stay symbolic).  If a Debug impl starts printing state, formatting SYMBOLIC bytes is very
/// expensive (the symbolic variant then times out = inconclusive); these variants stay cheap and give a
/// definite, replayable violation.  The uninterpreted cipher's outputs remain symbolic.
macro_rules! debugc_block {
    ($name:ident, $unw:expr, $ty:ty, $dir:ident, $ivbs:ty, $ivlen:expr, $mbs:ty, $mb:expr) => {
        #[kani::proof]
        #[kani::unwind($unw)]
        pub fn $name() {
            let k1: [u8; 2] = [0x11, 0x22];
            let k2: [u8; 2] = [0xa5, 0x5a];
            let iv1: [u8; $ivlen] = [0x31; $ivlen];
            let iv2: [u8; $ivlen] = [0xc7; $ivlen];
            let mut d1: [u8; $mb] = [0x0f; $mb];
            let mut d2: [u8; 2 * $mb] = [0xf0; 2 * $mb];
            let mut m1 = <$ty>::new(&k1.into(), blk::<$ivbs>(&iv1));
            let mut m2 = <$ty>::new(&k2.into(), blk::<$ivbs>(&iv2));
            // (fresh objects: nothing processed, so every state byte is a concrete constant)
            let _ = (&mut d1, &mut d2);
            let (s1, s2) = (fmt_debug(&m1), fmt_debug(&m2));
            same_text(&s1, &s2);
            kani::cover!(true);
        }
    };
}

macro_rules! debugc_bytes {
    ($name:ident, $unw:expr, $ty:ty, $call:ident, $ivbs:ty, $ivlen:expr, $n1:expr, $n2:expr) => {
        #[kani::proof]
        #[kani::unwind($unw)]
        pub fn $name() {
            let k1: [u8; 2] = [0x11, 0x22];
            let k2: [u8; 2] = [0xa5, 0x5a];
            let iv1: [u8; $ivlen] = [0x31; $ivlen];
            let iv2: [u8; $ivlen] = [0xc7; $ivlen];
            let mut d1: [u8; $n1] = [0x0f; $n1];
            let mut d2: [u8; $n2] = [0xf0; $n2];
            let mut m1 = <$ty>::new(&k1.into(), blk::<$ivbs>(&iv1));
            let mut m2 = <$ty>::new(&k2.into(), blk::<$ivbs>(&iv2));
            let _ = (&mut d1, &mut d2);
            let (s1, s2) = (fmt_debug(&m1), fmt_debug(&m2));
            same_text(&s1, &s2);
            kani::cover!(true);
        }
    };
}

macro_rules! debugc_core {
    ($name:ident, $unw:expr, $ty:ty, $ct:ty, $ivbs:ty, $ivlen:expr) => {
        #[kani::proof]
        #[kani::unwind($unw)]
        pub fn $name() {
            let k1: [u8; 2] = [0x11, 0x22];
            let k2: [u8; 2] = [0xa5, 0x5a];
            let iv1: [u8; $ivlen] = [0x31; $ivlen];
            let iv2: [u8; $ivlen] = [0xc7; $ivlen];
            let mut m1 = <$ty>::new(&k1.into(), blk::<$ivbs>(&iv1));
            let mut m2 = <$ty>::new(&k2.into(), blk::<$ivbs>(&iv2));
            let p1: $ct = kani::any();
            let p2: $ct = kani::any();
            m1.set_block_pos(p1 as _);
            m2.set_block_pos(p2 as _);
            let mut b: [u8; $ivlen] = [0x3c; $ivlen];
            let _ = &mut b;
            let (s1, s2) = (fmt_debug(&m1), fmt_debug(&m2));
            same_text(&s1, &s2);
            kani::cover!(true);
        }
    };
}

/// Algorithm name text: no `self`, so only its well-formedness is checked.
struct AlgName<T>(core::marker::PhantomData<T>);
impl<T: cipher::AlgorithmName> core::fmt::Display for AlgName<T> {
    fn fmt(&self, f: &mut core::fmt::Formatter<'_>) -> core::fmt::Result {
        T::write_alg_name(f)
    }
}
macro_rules! algname_case {
    ($name:ident, $unw:expr, $ty:ty, $expect:expr) => {
        #[kani::proof]
        #[kani::unwind($unw)]
        pub fn $name() {
            let mut s = Sink::new();
            assert!(write!(s, "{}", AlgName::<$ty>(core::marker::PhantomData)).is_ok());
            let _ = $expect;
            assert!(!s.overflow, "harness precondition: algorithm name fits the 200-byte sink");
            kani::cover!(true);
        }
    };
}

// ---- drop images ------------------------------------------------------------------------------

/// Run `$body` on an object placed in a MaybeUninit, drop it in place, return the storage bytes.
macro_rules! drop_image {
    ($ty:ty, $sz:expr, $init:expr, |$m:ident| $body:block) => {{
        let mut slot: MaybeUninit<$ty> = MaybeUninit::new($init);
        let mut img = [0u8; $sz];
        unsafe {
            {
                let $m: &mut $ty = &mut *slot.as_mut_ptr();
                $body
            }
            core::ptr::drop_in_place(slot.as_mut_ptr());
            let p = slot.as_ptr() as *const u8;
            let mut i = 0;
            while i < $sz {
                img[i] = *p.add(i);
                i += 1;
            }
        }
        img
    }};
}

macro_rules! drop_block {
    ($name:ident, $unw:expr, $ty:ty, $dir:ident, $ivbs:ty, $ivlen:expr, $mbs:ty, $mb:expr, $size:expr) => {
        #[kani::proof]
        #[kani::unwind($unw)]
        pub fn $name() {
            const SZ: usize = size_of::<$ty>();
            // layout precondition of THIS harness (not of the property): if the object's layout changes the
            // harness must be re-instantiated; the runner classifies a failed "harness precondition"
            // assertion as inconclusive (exit 2), never as a violation
            assert!(SZ == $size, "harness precondition: padding-free instantiation of the expected size");
            let iv: [u8; $ivlen] = kani::any();
            let mut d: [u8; $mb] = kani::any();
            let img = drop_image!($ty, SZ, <$ty>::inner_iv_init(UfZ::new(), blk::<$ivbs>(&iv)), |m| {
                do_blocks!($dir, m, blocks_mut::<$mbs>(&mut d));
            });
            let mut i = 0;
            while i < SZ {
                assert!(img[i] == 0, "chaining state left in memory after drop");
                i += 1;
            }
            kani::cover!(true);
        }
    };
}
macro_rules! drop_core {
    ($name:ident, $unw:expr, $ty:ty, $ct:ty, $ivbs:ty, $ivlen:expr, $size:expr) => {
        #[kani::proof]
        #[kani::unwind($unw)]
        pub fn $name() {
            const SZ: usize = size_of::<$ty>();
            // layout precondition of THIS harness (not of the property): if the object's layout changes the
            // harness must be re-instantiated; the runner classifies a failed "harness precondition"
            // assertion as inconclusive (exit 2), never as a violation
            assert!(SZ == $size, "harness precondition: padding-free instantiation of the expected size");
            let iv: [u8; $ivlen] = kani::any();
            let pos: $ct = kani::any();
            let mut b: [u8; $ivlen] = kani::any();
            let img = drop_image!($ty, SZ, <$ty>::inner_iv_init(UfZ::new(), blk::<$ivbs>(&iv)), |m| {
                m.set_block_pos(pos as _);
                m.write_keystream_block(blk_mut::<$ivbs>(&mut b));
            });
            let mut i = 0;
            while i < SZ {
                assert!(img[i] == 0, "nonce / counter left in memory after drop");
                i += 1;
            }
            kani::cover!(true);
        }
    };
}
/// byte-level wrappers (their buffer is wiped by the cipher crate, the core by /repo)
macro_rules! drop_wrapper {
    ($name:ident, $unw:expr, $core:ty, $ivbs:ty, $ivlen:expr, $n:expr, $size:expr) => {
        #[kani::proof]
        #[kani::unwind($unw)]
        pub fn $name() {
            type W = StreamCipherCoreWrapper<$core>;
            const SZ: usize = size_of::<W>();
            // layout precondition of THIS harness (not of the property): if the object's layout changes the
            // harness must be re-instantiated; the runner classifies a failed "harness precondition"
            // assertion as inconclusive (exit 2), never as a violation
            assert!(SZ == $size, "harness precondition: padding-free instantiation of the expected size");
            let iv: [u8; $ivlen] = kani::any();
            let mut d: [u8; $n] = kani::any();
            let img = drop_image!(W, SZ, StreamCipherCoreWrapper::from_core(<$core>::inner_iv_init(UfZ::new(), blk::<$ivbs>(&iv))), |m| {
                m.apply_keystream(&mut d);
            });
            let mut i = 0;
            while i < SZ {
                assert!(img[i] == 0, "keystream / counter left in memory after drop");
                i += 1;
            }
            kani::cover!(true);
        }
    };
}
/// buffered CFB: cursor `pos` (not secret) stays; two runs with independent IV / data and the same
/// number of bytes must leave identical images, of which at least B bytes... exactly: the image
/// may differ from zero only in the 8 bytes of `pos`.
macro_rules! drop_buf {
    ($name:ident, $unw:expr, $ty:ty, $call:ident, $ivbs:ty, $b:expr, $n:expr) => {
        #[kani::proof]
        #[kani::unwind($unw)]
        pub fn $name() {
            const SZ: usize = size_of::<$ty>();
            assert!(SZ == $b + 8, "harness precondition: padding-free instantiation of the expected size");
            let iv1: [u8; $b] = kani::any();
            let iv2: [u8; $b] = kani::any();
            let mut d1: [u8; $n] = kani::any();
            let mut d2: [u8; $n] = kani::any();
            let img1 = drop_image!($ty, SZ, <$ty>::inner_iv_init(UfZ::new(), blk::<$ivbs>(&iv1)), |m| { m.$call(&mut d1); });
            let img2 = drop_image!($ty, SZ, <$ty>::inner_iv_init(UfZ::new(), blk::<$ivbs>(&iv2)), |m| { m.$call(&mut d2); });
            let mut nz = 0usize;
            let mut i = 0;
            while i < SZ {
                assert!(img1[i] == img2[i], "memory after drop depends on IV / data");
                if img1[i] != 0 {
                    nz += 1;
                }
                i += 1;
            }
            assert!(nz <= 1, "more than the byte cursor left in memory after drop"); // pos = n mod b < 256
            kani::cover!(true);
        }
    };
}

type Z2 = UfZ<U2, U1>;
type Z4 = UfZ<U4, U1>;
type Z8 = UfZ<U8, U1>;
type Z16 = UfZ<U16, U1>;
type E2 = UfE<U2, U1>;
type F2 = Uf<U2, U1>;

// ---- quick -----------------------------------------------------------------------------------
debug_block!(dbg_cbc_enc, 210, cbc::Encryptor<F2>, enc, U2, 2, U2, 2);
debugc_block!(dbgc_cbc_enc, 210, cbc::Encryptor<F2>, enc, U2, 2, U2, 2);
debug_block!(dbg_cbc_dec, 210, cbc::Decryptor<F2>, dec, U2, 2, U2, 2);
debugc_block!(dbgc_cbc_dec, 210, cbc::Decryptor<F2>, dec, U2, 2, U2, 2);
debug_block!(dbg_pcbc_enc, 210, pcbc::Encryptor<F2>, enc, U2, 2, U2, 2);
debugc_block!(dbgc_pcbc_enc, 210, pcbc::Encryptor<F2>, enc, U2, 2, U2, 2);
debug_block!(dbg_pcbc_dec, 210, pcbc::Decryptor<F2>, dec, U2, 2, U2, 2);
debugc_block!(dbgc_pcbc_dec, 210, pcbc::Decryptor<F2>, dec, U2, 2, U2, 2);
debug_block!(dbg_ige_enc, 210, ige::Encryptor<F2>, enc, U4, 4, U2, 2);
debugc_block!(dbgc_ige_enc, 210, ige::Encryptor<F2>, enc, U4, 4, U2, 2);
debug_block!(dbg_ige_dec, 210, ige::Decryptor<F2>, dec, U4, 4, U2, 2);
debugc_block!(dbgc_ige_dec, 210, ige::Decryptor<F2>, dec, U4, 4, U2, 2);
debug_block!(dbg_cfb_enc, 210, cfb_mode::Encryptor<E2>, enc, U2, 2, U2, 2);
debugc_block!(dbgc_cfb_enc, 210, cfb_mode::Encryptor<E2>, enc, U2, 2, U2, 2);
debug_block!(dbg_cfb_dec, 210, cfb_mode::Decryptor<E2>, dec, U2, 2, U2, 2);
debugc_block!(dbgc_cfb_dec, 210, cfb_mode::Decryptor<E2>, dec, U2, 2, U2, 2);
debug_block!(dbg_cfb8_enc, 210, cfb8::Encryptor<E2>, enc, U2, 2, U1, 1);
debugc_block!(dbgc_cfb8_enc, 210, cfb8::Encryptor<E2>, enc, U2, 2, U1, 1);
debug_block!(dbg_cfb8_dec, 210, cfb8::Decryptor<E2>, dec, U2, 2, U1, 1);
debugc_block!(dbgc_cfb8_dec, 210, cfb8::Decryptor<E2>, dec, U2, 2, U1, 1);
debug_block!(dbg_ofb_core, 210, ofb::OfbCore<E2>, enc, U2, 2, U2, 2);
debugc_block!(dbgc_ofb_core, 210, ofb::OfbCore<E2>, enc, U2, 2, U2, 2);
debug_bytes!(dbg_cfb_bufenc, 210, cfb_mode::BufEncryptor<E2>, encrypt, U2, 2, 1, 3);
debugc_bytes!(dbgc_cfb_bufenc, 210, cfb_mode::BufEncryptor<E2>, encrypt, U2, 2, 1, 3);
debug_bytes!(dbg_cfb_bufdec, 210, cfb_mode::BufDecryptor<E2>, decrypt, U2, 2, 1, 3);
debugc_bytes!(dbgc_cfb_bufdec, 210, cfb_mode::BufDecryptor<E2>, decrypt, U2, 2, 1, 3);
debug_core!(dbg_ctr32be_core, 210, ctr::CtrCore<UfE<U4, U1>, ctr::flavors::Ctr32BE>, u32, U4, 4);
debugc_core!(dbgc_ctr32be_core, 210, ctr::CtrCore<UfE<U4, U1>, ctr::flavors::Ctr32BE>, u32, U4, 4);
debug_core!(dbg_ctr32le_core, 210, ctr::CtrCore<UfE<U4, U1>, ctr::flavors::Ctr32LE>, u32, U4, 4);
debugc_core!(dbgc_ctr32le_core, 210, ctr::CtrCore<UfE<U4, U1>, ctr::flavors::Ctr32LE>, u32, U4, 4);
debug_core!(dbg_ctr64be_core, 210, ctr::CtrCore<UfE<U8, U1>, ctr::flavors::Ctr64BE>, u64, U8, 8);
debugc_core!(dbgc_ctr64be_core, 210, ctr::CtrCore<UfE<U8, U1>, ctr::flavors::Ctr64BE>, u64, U8, 8);
debug_core!(dbg_ctr64le_core, 210, ctr::CtrCore<UfE<U8, U1>, ctr::flavors::Ctr64LE>, u64, U8, 8);
debugc_core!(dbgc_ctr64le_core, 210, ctr::CtrCore<UfE<U8, U1>, ctr::flavors::Ctr64LE>, u64, U8, 8);
debug_core!(dbg_ctr128be_core, 210, ctr::CtrCore<UfE<U16, U1>, ctr::flavors::Ctr128BE>, u128, U16, 16);
debugc_core!(dbgc_ctr128be_core, 210, ctr::CtrCore<UfE<U16, U1>, ctr::flavors::Ctr128BE>, u128, U16, 16);
debug_core!(dbg_ctr128le_core, 210, ctr::CtrCore<UfE<U16, U1>, ctr::flavors::Ctr128LE>, u128, U16, 16);
debugc_core!(dbgc_ctr128le_core, 210, ctr::CtrCore<UfE<U16, U1>, ctr::flavors::Ctr128LE>, u128, U16, 16);
debug_core!(dbg_belt_core, 210, belt_ctr::BeltCtrCore<UfE<U16, U1>>, u128, U16, 16);
debugc_core!(dbgc_belt_core, 210, belt_ctr::BeltCtrCore<UfE<U16, U1>>, u128, U16, 16);
algname_case!(alg_cbc_enc, 210, cbc::Encryptor<F2>, "cbc::Encryptor<Uf>");
algname_case!(alg_ctr64le, 210, ctr::CtrCore<UfE<U8, U1>, ctr::flavors::Ctr64LE>, "Ctr64LE<Uf>");
algname_case!(alg_belt, 210, belt_ctr::BeltCtrCore<UfE<U16, U1>>, "BeltCtr<Uf>");
// known finding: Debug of the byte-level aliases prints the unused keystream bytes of the current block
debug_bytes_kf!(kf_debug_alias_ctr32be, 210, ctr::Ctr32BE<UfE<U4, U1>>, apply_keystream, U4, 4, 1, 1);
debug_bytes_kf!(kf_debug_alias_ofb, 210, ofb::Ofb<UfE<U4, U1>>, apply_keystream, U4, 4, 1, 1);

drop_block!(drop_cbc_enc, 48, cbc::Encryptor<Z4>, enc, U4, 4, U4, 4, 4);
drop_block!(drop_cbc_dec, 48, cbc::Decryptor<Z4>, dec, U4, 4, U4, 4, 4);
drop_block!(drop_pcbc_enc, 48, pcbc::Encryptor<Z4>, enc, U4, 4, U4, 4, 4);
drop_block!(drop_pcbc_dec, 48, pcbc::Decryptor<Z4>, dec, U4, 4, U4, 4, 4);
drop_block!(drop_ige_enc, 48, ige::Encryptor<Z4>, enc, U8, 8, U4, 4, 8);
drop_block!(drop_ige_dec, 48, ige::Decryptor<Z4>, dec, U8, 8, U4, 4, 8);
drop_block!(drop_cfb_enc, 48, cfb_mode::Encryptor<Z4>, enc, U4, 4, U4, 4, 4);
drop_block!(drop_cfb_dec, 48, cfb_mode::Decryptor<Z4>, dec, U4, 4, U4, 4, 4);
drop_block!(drop_cfb8_enc, 48, cfb8::Encryptor<Z4>, enc, U4, 4, U1, 1, 4);
drop_block!(drop_cfb8_dec, 48, cfb8::Decryptor<Z4>, dec, U4, 4, U1, 1, 4);
drop_block!(drop_ofb_core, 48, ofb::OfbCore<Z4>, enc, U4, 4, U4, 4, 4);
drop_buf!(drop_cfb_bufenc, 48, cfb_mode::BufEncryptor<Z8>, encrypt, U8, 8, 11);
drop_buf!(drop_cfb_bufdec, 48, cfb_mode::BufDecryptor<Z8>, decrypt, U8, 8, 11);
drop_core!(drop_ctr32be_core, 48, ctr::CtrCore<Z8, ctr::flavors::Ctr32BE>, u32, U8, 8, 12);
drop_core!(drop_ctr32le_core, 48, ctr::CtrCore<Z8, ctr::flavors::Ctr32LE>, u32, U8, 8, 12);
drop_core!(drop_ctr32be_core_b32, 64, ctr::CtrCore<UfZ<U32, U1>, ctr::flavors::Ctr32BE>, u32, U32, 32, 36);
drop_core!(drop_ctr32le_core_b32, 64, ctr::CtrCore<UfZ<U32, U1>, ctr::flavors::Ctr32LE>, u32, U32, 32, 36);
drop_core!(drop_ctr64be_core_b32, 64, ctr::CtrCore<UfZ<U32, U1>, ctr::flavors::Ctr64BE>, u64, U32, 32, 40);
drop_core!(drop_ctr64be_core, 64, ctr::CtrCore<Z16, ctr::flavors::Ctr64BE>, u64, U16, 16, 24);
drop_core!(drop_ctr64le_core, 64, ctr::CtrCore<Z16, ctr::flavors::Ctr64LE>, u64, U16, 16, 24);
drop_core!(drop_ctr128be_core, 64, ctr::CtrCore<Z16, ctr::flavors::Ctr128BE>, u128, U16, 16, 32);
drop_core!(drop_ctr128le_core, 64, ctr::CtrCore<Z16, ctr::flavors::Ctr128LE>, u128, U16, 16, 32);
drop_core!(drop_belt_core, 64, belt_ctr::BeltCtrCore<Z16>, u128, U16, 16, 32);
drop_wrapper!(drop_ctr32be_alias, 48, ctr::CtrCore<Z8, ctr::flavors::Ctr32BE>, U8, 8, 3, 20);
drop_wrapper!(drop_ctr64le_alias, 64, ctr::CtrCore<Z16, ctr::flavors::Ctr64LE>, U16, 16, 17, 40);
drop_wrapper!(drop_ctr128be_alias, 64, ctr::CtrCore<Z16, ctr::flavors::Ctr128BE>, U16, 16, 5, 48);
drop_wrapper!(drop_ofb_alias, 48, ofb::OfbCore<Z4>, U4, 4, 5, 8);
drop_wrapper!(drop_belt_alias, 64, belt_ctr::BeltCtrCore<Z16>, U16, 16, 5, 48);

// ---- thorough --------------------------------------------------------------------------------
debug_bytes_kf!(kf_t_debug_alias_ctr64le, 210, ctr::Ctr64LE<UfE<U8, U1>>, apply_keystream, U8, 8, 3, 9);
drop_wrapper!(t_drop_ctr32le_alias, 48, ctr::CtrCore<Z8, ctr::flavors::Ctr32LE>, U8, 8, 9, 20);
drop_wrapper!(t_drop_ctr64be_alias, 64, ctr::CtrCore<Z16, ctr::flavors::Ctr64BE>, U16, 16, 1, 40);
drop_wrapper!(t_drop_ctr128le_alias, 64, ctr::CtrCore<Z16, ctr::flavors::Ctr128LE>, U16, 16, 33, 48);
drop_block!(t_drop_cbc_enc_b16, 64, cbc::Encryptor<Z16>, enc, U16, 16, U16, 16, 16);
drop_block!(t_drop_ige_dec_b8, 64, ige::Decryptor<Z8>, dec, U16, 16, U8, 8, 16);
drop_block!(t_drop_cfb_dec_b16, 64, cfb_mode::Decryptor<Z16>, dec, U16, 16, U16, 16, 16);
