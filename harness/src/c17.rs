//! (harnesses for C17 not written yet)
