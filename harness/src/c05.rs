//! C05: ciphertext stealing follows NIST SP 800-38A Addendum CS1/CS2/CS3 (CBC and ECB).
//! GENERATED instantiation lists at the bottom (see gen comment); macro bodies are hand-written.
use crate::prelude::*;
use cts::{Decrypt, Encrypt};
use spec::Cs;

pub use crate::common::mk;

/// Concrete length L: encrypt == NIST spec, ciphertext length == L, decrypt(spec ciphertext) == message,
/// bytes beyond L untouched.  Everything else (cipher, key, IV, data) symbolic.
macro_rules! cts_fixed {
    ($name:ident, $unw:expr, $ty:ident, $cbc:expr, $v:expr, $bs:ty, $b:expr, $par:ty, $l:expr) => {
        #[kani::proof]
        #[kani::unwind($unw)]
        pub fn $name() {
            const B: usize = $b;
            const L: usize = $l;
            const NB: usize = (L + B - 1) / B;
            let c = Uf::<$bs, $par>::with_key(kani::any());
            let iv: [u8; B] = kani::any();
            let msg: [u8; L] = kani::any();
            let want = spec::cts_enc::<L, NB>(c.p(), $cbc, $v, &iv, &msg, L);
            let guard: [u8; 2] = kani::any();
            let mut buf = [0u8; L + 2];
            buf[..L].copy_from_slice(&msg);
            buf[L] = guard[0];
            buf[L + 1] = guard[1];
            let r = mk::$ty(c.clone(), &iv).encrypt(&mut buf[..L]);
            assert!(r.is_ok(), "a message of at least one block must be accepted");
            let mut i = 0;
            while i < L {
                assert!(buf[i] == want[i], "ciphertext differs from the NIST SP 800-38A addendum definition");
                i += 1;
            }
            assert!(buf[L] == guard[0] && buf[L + 1] == guard[1], "bytes beyond the message modified");
            let r = mk::$ty(c.clone(), &iv).decrypt(&mut buf[..L]);
            assert!(r.is_ok());
            let mut i = 0;
            while i < L {
                assert!(buf[i] == msg[i], "decryption does not invert encryption");
                i += 1;
            }
            assert!(buf[L] == guard[0] && buf[L + 1] == guard[1]);
            kani::cover!(true);
        }
    };
}

/// Concrete length L, ARBITRARY ciphertext: decrypt == the addendum's decryption procedure.
macro_rules! cts_dec_arb {
    ($name:ident, $unw:expr, $ty:ident, $cbc:expr, $v:expr, $bs:ty, $b:expr, $par:ty, $l:expr) => {
        #[kani::proof]
        #[kani::unwind($unw)]
        pub fn $name() {
            const B: usize = $b;
            const L: usize = $l;
            let c = Uf::<$bs, $par>::with_key(kani::any());
            let iv: [u8; B] = kani::any();
            let ct: [u8; L] = kani::any();
            let mut want = [0u8; L];
            spec::cts_dec(c.p(), $cbc, $v, &iv, &ct, &mut want);
            let mut buf = ct;
            let r = mk::$ty(c.clone(), &iv).decrypt(&mut buf);
            assert!(r.is_ok());
            let mut i = 0;
            while i < L {
                assert!(buf[i] == want[i], "decryption of arbitrary ciphertext differs from the NIST procedure");
                i += 1;
            }
            kani::cover!(true);
        }
    };
}

/// Symbolic length L in [LO, M]: encrypt == spec (fixed number of oracle calls in the spec).
macro_rules! cts_enc_sym {
    ($name:ident, $unw:expr, $ty:ident, $cbc:expr, $v:expr, $bs:ty, $b:expr, $par:ty, $lo:expr, $m:expr) => {
        #[kani::proof]
        #[kani::unwind($unw)]
        pub fn $name() {
            const B: usize = $b;
            const M: usize = $m;
            const NB: usize = (M + B - 1) / B;
            let c = Uf::<$bs, $par>::with_key(kani::any());
            let iv: [u8; B] = kani::any();
            let msg: [u8; M] = kani::any();
            let len: usize = kani::any();
            kani::assume(len >= $lo && len <= M);
            let want = spec::cts_enc::<M, NB>(c.p(), $cbc, $v, &iv, &msg, len);
            let mut buf = msg;
            split_on!(len, $lo, M, l => {
                let r = mk::$ty(c.clone(), &iv).encrypt(&mut buf[..l]);
                assert!(r.is_ok());
            });
            let mut i = 0;
            while i < M {
                assert!(buf[i] == want[i], "ciphertext differs from the NIST definition");
                i += 1;
            }
            kani::cover!(len == $lo);
            kani::cover!(len == 2 * B);
            kani::cover!(len == M);
        }
    };
}
/// Symbolic length: decrypt(spec ciphertext) == message.
macro_rules! cts_dec_sym {
    ($name:ident, $unw:expr, $ty:ident, $cbc:expr, $v:expr, $bs:ty, $b:expr, $par:ty, $lo:expr, $m:expr) => {
        #[kani::proof]
        #[kani::unwind($unw)]
        pub fn $name() {
            const B: usize = $b;
            const M: usize = $m;
            const NB: usize = (M + B - 1) / B;
            let c = Uf::<$bs, $par>::with_key(kani::any());
            let iv: [u8; B] = kani::any();
            let msg: [u8; M] = kani::any();
            let len: usize = kani::any();
            kani::assume(len >= $lo && len <= M);
            let mut buf = spec::cts_enc::<M, NB>(c.p(), $cbc, $v, &iv, &msg, len);
            split_on!(len, $lo, M, l => {
                let r = mk::$ty(c.clone(), &iv).decrypt(&mut buf[..l]);
                assert!(r.is_ok());
            });
            let mut i = 0;
            while i < M {
                assert!(buf[i] == msg[i], "decryption of the NIST ciphertext does not return the message");
                i += 1;
            }
            kani::cover!(len == $lo);
            kani::cover!(len == M);
        }
    };
}

// ---- quick: b=2, w=2, every length b..4b+1 (all residues, L=b, L=kb; >= w whole leading blocks reach the parallel paths)
cts_fixed!(cbc_cs1_b2_w2_l2, 48, CbcCs1, true, Cs::Cs1, U2, 2, U2, 2);
cts_fixed!(cbc_cs1_b2_w2_l3, 48, CbcCs1, true, Cs::Cs1, U2, 2, U2, 3);
cts_fixed!(cbc_cs1_b2_w2_l4, 48, CbcCs1, true, Cs::Cs1, U2, 2, U2, 4);
cts_fixed!(cbc_cs1_b2_w2_l5, 48, CbcCs1, true, Cs::Cs1, U2, 2, U2, 5);
cts_fixed!(cbc_cs1_b2_w2_l6, 48, CbcCs1, true, Cs::Cs1, U2, 2, U2, 6);
cts_fixed!(cbc_cs1_b2_w2_l7, 48, CbcCs1, true, Cs::Cs1, U2, 2, U2, 7);
cts_fixed!(cbc_cs1_b2_w2_l8, 48, CbcCs1, true, Cs::Cs1, U2, 2, U2, 8);
cts_fixed!(cbc_cs1_b2_w2_l9, 48, CbcCs1, true, Cs::Cs1, U2, 2, U2, 9);
cts_fixed!(cbc_cs2_b2_w2_l2, 48, CbcCs2, true, Cs::Cs2, U2, 2, U2, 2);
cts_fixed!(cbc_cs2_b2_w2_l3, 48, CbcCs2, true, Cs::Cs2, U2, 2, U2, 3);
cts_fixed!(cbc_cs2_b2_w2_l4, 48, CbcCs2, true, Cs::Cs2, U2, 2, U2, 4);
cts_fixed!(cbc_cs2_b2_w2_l5, 48, CbcCs2, true, Cs::Cs2, U2, 2, U2, 5);
cts_fixed!(cbc_cs2_b2_w2_l6, 48, CbcCs2, true, Cs::Cs2, U2, 2, U2, 6);
cts_fixed!(cbc_cs2_b2_w2_l7, 48, CbcCs2, true, Cs::Cs2, U2, 2, U2, 7);
cts_fixed!(cbc_cs2_b2_w2_l8, 48, CbcCs2, true, Cs::Cs2, U2, 2, U2, 8);
cts_fixed!(cbc_cs2_b2_w2_l9, 48, CbcCs2, true, Cs::Cs2, U2, 2, U2, 9);
cts_fixed!(cbc_cs3_b2_w2_l2, 48, CbcCs3, true, Cs::Cs3, U2, 2, U2, 2);
cts_fixed!(cbc_cs3_b2_w2_l3, 48, CbcCs3, true, Cs::Cs3, U2, 2, U2, 3);
cts_fixed!(cbc_cs3_b2_w2_l4, 48, CbcCs3, true, Cs::Cs3, U2, 2, U2, 4);
cts_fixed!(cbc_cs3_b2_w2_l5, 48, CbcCs3, true, Cs::Cs3, U2, 2, U2, 5);
cts_fixed!(cbc_cs3_b2_w2_l6, 48, CbcCs3, true, Cs::Cs3, U2, 2, U2, 6);
cts_fixed!(cbc_cs3_b2_w2_l7, 48, CbcCs3, true, Cs::Cs3, U2, 2, U2, 7);
cts_fixed!(cbc_cs3_b2_w2_l8, 48, CbcCs3, true, Cs::Cs3, U2, 2, U2, 8);
cts_fixed!(cbc_cs3_b2_w2_l9, 48, CbcCs3, true, Cs::Cs3, U2, 2, U2, 9);
cts_fixed!(ecb_cs1_b2_w2_l2, 48, EcbCs1, false, Cs::Cs1, U2, 2, U2, 2);
cts_fixed!(ecb_cs1_b2_w2_l3, 48, EcbCs1, false, Cs::Cs1, U2, 2, U2, 3);
cts_fixed!(ecb_cs1_b2_w2_l4, 48, EcbCs1, false, Cs::Cs1, U2, 2, U2, 4);
cts_fixed!(ecb_cs1_b2_w2_l5, 48, EcbCs1, false, Cs::Cs1, U2, 2, U2, 5);
cts_fixed!(ecb_cs1_b2_w2_l6, 48, EcbCs1, false, Cs::Cs1, U2, 2, U2, 6);
cts_fixed!(ecb_cs1_b2_w2_l7, 48, EcbCs1, false, Cs::Cs1, U2, 2, U2, 7);
cts_fixed!(ecb_cs1_b2_w2_l8, 48, EcbCs1, false, Cs::Cs1, U2, 2, U2, 8);
cts_fixed!(ecb_cs1_b2_w2_l9, 48, EcbCs1, false, Cs::Cs1, U2, 2, U2, 9);
cts_fixed!(ecb_cs2_b2_w2_l2, 48, EcbCs2, false, Cs::Cs2, U2, 2, U2, 2);
cts_fixed!(ecb_cs2_b2_w2_l3, 48, EcbCs2, false, Cs::Cs2, U2, 2, U2, 3);
cts_fixed!(ecb_cs2_b2_w2_l4, 48, EcbCs2, false, Cs::Cs2, U2, 2, U2, 4);
cts_fixed!(ecb_cs2_b2_w2_l5, 48, EcbCs2, false, Cs::Cs2, U2, 2, U2, 5);
cts_fixed!(ecb_cs2_b2_w2_l6, 48, EcbCs2, false, Cs::Cs2, U2, 2, U2, 6);
cts_fixed!(ecb_cs2_b2_w2_l7, 48, EcbCs2, false, Cs::Cs2, U2, 2, U2, 7);
cts_fixed!(ecb_cs2_b2_w2_l8, 48, EcbCs2, false, Cs::Cs2, U2, 2, U2, 8);
cts_fixed!(ecb_cs2_b2_w2_l9, 48, EcbCs2, false, Cs::Cs2, U2, 2, U2, 9);
cts_fixed!(ecb_cs3_b2_w2_l2, 48, EcbCs3, false, Cs::Cs3, U2, 2, U2, 2);
cts_fixed!(ecb_cs3_b2_w2_l3, 48, EcbCs3, false, Cs::Cs3, U2, 2, U2, 3);
cts_fixed!(ecb_cs3_b2_w2_l4, 48, EcbCs3, false, Cs::Cs3, U2, 2, U2, 4);
cts_fixed!(ecb_cs3_b2_w2_l5, 48, EcbCs3, false, Cs::Cs3, U2, 2, U2, 5);
cts_fixed!(ecb_cs3_b2_w2_l6, 48, EcbCs3, false, Cs::Cs3, U2, 2, U2, 6);
cts_fixed!(ecb_cs3_b2_w2_l7, 48, EcbCs3, false, Cs::Cs3, U2, 2, U2, 7);
cts_fixed!(ecb_cs3_b2_w2_l8, 48, EcbCs3, false, Cs::Cs3, U2, 2, U2, 8);
cts_fixed!(ecb_cs3_b2_w2_l9, 48, EcbCs3, false, Cs::Cs3, U2, 2, U2, 9);
// ---- quick: arbitrary ciphertext vs the NIST decryption procedure
cts_dec_arb!(arb_cbc_cs1_b2_w2_l2, 48, CbcCs1, true, Cs::Cs1, U2, 2, U2, 2);
cts_dec_arb!(arb_cbc_cs1_b2_w2_l3, 48, CbcCs1, true, Cs::Cs1, U2, 2, U2, 3);
cts_dec_arb!(arb_cbc_cs1_b2_w2_l4, 48, CbcCs1, true, Cs::Cs1, U2, 2, U2, 4);
cts_dec_arb!(arb_cbc_cs1_b2_w2_l5, 48, CbcCs1, true, Cs::Cs1, U2, 2, U2, 5);
cts_dec_arb!(arb_cbc_cs1_b2_w2_l7, 48, CbcCs1, true, Cs::Cs1, U2, 2, U2, 7);
cts_dec_arb!(arb_cbc_cs1_b2_w2_l8, 48, CbcCs1, true, Cs::Cs1, U2, 2, U2, 8);
cts_dec_arb!(arb_cbc_cs2_b2_w2_l2, 48, CbcCs2, true, Cs::Cs2, U2, 2, U2, 2);
cts_dec_arb!(arb_cbc_cs2_b2_w2_l3, 48, CbcCs2, true, Cs::Cs2, U2, 2, U2, 3);
cts_dec_arb!(arb_cbc_cs2_b2_w2_l4, 48, CbcCs2, true, Cs::Cs2, U2, 2, U2, 4);
cts_dec_arb!(arb_cbc_cs2_b2_w2_l5, 48, CbcCs2, true, Cs::Cs2, U2, 2, U2, 5);
cts_dec_arb!(arb_cbc_cs2_b2_w2_l7, 48, CbcCs2, true, Cs::Cs2, U2, 2, U2, 7);
cts_dec_arb!(arb_cbc_cs2_b2_w2_l8, 48, CbcCs2, true, Cs::Cs2, U2, 2, U2, 8);
cts_dec_arb!(arb_cbc_cs3_b2_w2_l2, 48, CbcCs3, true, Cs::Cs3, U2, 2, U2, 2);
cts_dec_arb!(arb_cbc_cs3_b2_w2_l3, 48, CbcCs3, true, Cs::Cs3, U2, 2, U2, 3);
cts_dec_arb!(arb_cbc_cs3_b2_w2_l4, 48, CbcCs3, true, Cs::Cs3, U2, 2, U2, 4);
cts_dec_arb!(arb_cbc_cs3_b2_w2_l5, 48, CbcCs3, true, Cs::Cs3, U2, 2, U2, 5);
cts_dec_arb!(arb_cbc_cs3_b2_w2_l7, 48, CbcCs3, true, Cs::Cs3, U2, 2, U2, 7);
cts_dec_arb!(arb_cbc_cs3_b2_w2_l8, 48, CbcCs3, true, Cs::Cs3, U2, 2, U2, 8);
cts_dec_arb!(arb_ecb_cs1_b2_w2_l2, 48, EcbCs1, false, Cs::Cs1, U2, 2, U2, 2);
cts_dec_arb!(arb_ecb_cs1_b2_w2_l3, 48, EcbCs1, false, Cs::Cs1, U2, 2, U2, 3);
cts_dec_arb!(arb_ecb_cs1_b2_w2_l4, 48, EcbCs1, false, Cs::Cs1, U2, 2, U2, 4);
cts_dec_arb!(arb_ecb_cs1_b2_w2_l5, 48, EcbCs1, false, Cs::Cs1, U2, 2, U2, 5);
cts_dec_arb!(arb_ecb_cs1_b2_w2_l7, 48, EcbCs1, false, Cs::Cs1, U2, 2, U2, 7);
cts_dec_arb!(arb_ecb_cs1_b2_w2_l8, 48, EcbCs1, false, Cs::Cs1, U2, 2, U2, 8);
cts_dec_arb!(arb_ecb_cs2_b2_w2_l2, 48, EcbCs2, false, Cs::Cs2, U2, 2, U2, 2);
cts_dec_arb!(arb_ecb_cs2_b2_w2_l3, 48, EcbCs2, false, Cs::Cs2, U2, 2, U2, 3);
cts_dec_arb!(arb_ecb_cs2_b2_w2_l4, 48, EcbCs2, false, Cs::Cs2, U2, 2, U2, 4);
cts_dec_arb!(arb_ecb_cs2_b2_w2_l5, 48, EcbCs2, false, Cs::Cs2, U2, 2, U2, 5);
cts_dec_arb!(arb_ecb_cs2_b2_w2_l7, 48, EcbCs2, false, Cs::Cs2, U2, 2, U2, 7);
cts_dec_arb!(arb_ecb_cs2_b2_w2_l8, 48, EcbCs2, false, Cs::Cs2, U2, 2, U2, 8);
cts_dec_arb!(arb_ecb_cs3_b2_w2_l2, 48, EcbCs3, false, Cs::Cs3, U2, 2, U2, 2);
cts_dec_arb!(arb_ecb_cs3_b2_w2_l3, 48, EcbCs3, false, Cs::Cs3, U2, 2, U2, 3);
cts_dec_arb!(arb_ecb_cs3_b2_w2_l4, 48, EcbCs3, false, Cs::Cs3, U2, 2, U2, 4);
cts_dec_arb!(arb_ecb_cs3_b2_w2_l5, 48, EcbCs3, false, Cs::Cs3, U2, 2, U2, 5);
cts_dec_arb!(arb_ecb_cs3_b2_w2_l7, 48, EcbCs3, false, Cs::Cs3, U2, 2, U2, 7);
cts_dec_arb!(arb_ecb_cs3_b2_w2_l8, 48, EcbCs3, false, Cs::Cs3, U2, 2, U2, 8);
// ---- quick: b=4 with widths 1 and 3
cts_fixed!(cbc_cs1_b4_w1_l4, 64, CbcCs1, true, Cs::Cs1, U4, 4, U1, 4);
cts_fixed!(cbc_cs1_b4_w1_l7, 64, CbcCs1, true, Cs::Cs1, U4, 4, U1, 7);
cts_fixed!(cbc_cs1_b4_w3_l8, 64, CbcCs1, true, Cs::Cs1, U4, 4, U3, 8);
cts_fixed!(cbc_cs1_b4_w3_l21, 64, CbcCs1, true, Cs::Cs1, U4, 4, U3, 21);
cts_fixed!(cbc_cs2_b4_w1_l4, 64, CbcCs2, true, Cs::Cs2, U4, 4, U1, 4);
cts_fixed!(cbc_cs2_b4_w1_l7, 64, CbcCs2, true, Cs::Cs2, U4, 4, U1, 7);
cts_fixed!(cbc_cs2_b4_w3_l8, 64, CbcCs2, true, Cs::Cs2, U4, 4, U3, 8);
cts_fixed!(cbc_cs2_b4_w3_l21, 64, CbcCs2, true, Cs::Cs2, U4, 4, U3, 21);
cts_fixed!(cbc_cs3_b4_w1_l4, 64, CbcCs3, true, Cs::Cs3, U4, 4, U1, 4);
cts_fixed!(cbc_cs3_b4_w1_l7, 64, CbcCs3, true, Cs::Cs3, U4, 4, U1, 7);
cts_fixed!(cbc_cs3_b4_w3_l8, 64, CbcCs3, true, Cs::Cs3, U4, 4, U3, 8);
cts_fixed!(cbc_cs3_b4_w3_l21, 64, CbcCs3, true, Cs::Cs3, U4, 4, U3, 21);
cts_fixed!(ecb_cs1_b4_w1_l4, 64, EcbCs1, false, Cs::Cs1, U4, 4, U1, 4);
cts_fixed!(ecb_cs1_b4_w1_l7, 64, EcbCs1, false, Cs::Cs1, U4, 4, U1, 7);
cts_fixed!(ecb_cs1_b4_w3_l8, 64, EcbCs1, false, Cs::Cs1, U4, 4, U3, 8);
cts_fixed!(ecb_cs1_b4_w3_l21, 64, EcbCs1, false, Cs::Cs1, U4, 4, U3, 21);
cts_fixed!(ecb_cs2_b4_w1_l4, 64, EcbCs2, false, Cs::Cs2, U4, 4, U1, 4);
cts_fixed!(ecb_cs2_b4_w1_l7, 64, EcbCs2, false, Cs::Cs2, U4, 4, U1, 7);
cts_fixed!(ecb_cs2_b4_w3_l8, 64, EcbCs2, false, Cs::Cs2, U4, 4, U3, 8);
cts_fixed!(ecb_cs2_b4_w3_l21, 64, EcbCs2, false, Cs::Cs2, U4, 4, U3, 21);
cts_fixed!(ecb_cs3_b4_w1_l4, 64, EcbCs3, false, Cs::Cs3, U4, 4, U1, 4);
cts_fixed!(ecb_cs3_b4_w1_l7, 64, EcbCs3, false, Cs::Cs3, U4, 4, U1, 7);
cts_fixed!(ecb_cs3_b4_w3_l8, 64, EcbCs3, false, Cs::Cs3, U4, 4, U3, 8);
cts_fixed!(ecb_cs3_b4_w3_l21, 64, EcbCs3, false, Cs::Cs3, U4, 4, U3, 21);
// ---- thorough: symbolic length
cts_enc_sym!(t_cbc_cs1_enc_b2_w2_sym_l9, 48, CbcCs1, true, Cs::Cs1, U2, 2, U2, 2, 9);
cts_dec_sym!(t_cbc_cs1_dec_b2_w2_sym_l9, 48, CbcCs1, true, Cs::Cs1, U2, 2, U2, 2, 9);
cts_enc_sym!(t_cbc_cs1_enc_b4_w3_sym_l13, 48, CbcCs1, true, Cs::Cs1, U4, 4, U3, 4, 13);
cts_enc_sym!(t_cbc_cs2_enc_b2_w2_sym_l9, 48, CbcCs2, true, Cs::Cs2, U2, 2, U2, 2, 9);
cts_dec_sym!(t_cbc_cs2_dec_b2_w2_sym_l9, 48, CbcCs2, true, Cs::Cs2, U2, 2, U2, 2, 9);
cts_enc_sym!(t_cbc_cs2_enc_b4_w3_sym_l13, 48, CbcCs2, true, Cs::Cs2, U4, 4, U3, 4, 13);
cts_enc_sym!(t_cbc_cs3_enc_b2_w2_sym_l9, 48, CbcCs3, true, Cs::Cs3, U2, 2, U2, 2, 9);
cts_dec_sym!(t_cbc_cs3_dec_b2_w2_sym_l9, 48, CbcCs3, true, Cs::Cs3, U2, 2, U2, 2, 9);
cts_enc_sym!(t_cbc_cs3_enc_b4_w3_sym_l13, 48, CbcCs3, true, Cs::Cs3, U4, 4, U3, 4, 13);
cts_enc_sym!(t_ecb_cs1_enc_b2_w2_sym_l9, 48, EcbCs1, false, Cs::Cs1, U2, 2, U2, 2, 9);
cts_dec_sym!(t_ecb_cs1_dec_b2_w2_sym_l9, 48, EcbCs1, false, Cs::Cs1, U2, 2, U2, 2, 9);
cts_enc_sym!(t_ecb_cs1_enc_b4_w3_sym_l13, 48, EcbCs1, false, Cs::Cs1, U4, 4, U3, 4, 13);
cts_enc_sym!(t_ecb_cs2_enc_b2_w2_sym_l9, 48, EcbCs2, false, Cs::Cs2, U2, 2, U2, 2, 9);
cts_dec_sym!(t_ecb_cs2_dec_b2_w2_sym_l9, 48, EcbCs2, false, Cs::Cs2, U2, 2, U2, 2, 9);
cts_enc_sym!(t_ecb_cs2_enc_b4_w3_sym_l13, 48, EcbCs2, false, Cs::Cs2, U4, 4, U3, 4, 13);
cts_enc_sym!(t_ecb_cs3_enc_b2_w2_sym_l9, 48, EcbCs3, false, Cs::Cs3, U2, 2, U2, 2, 9);
cts_dec_sym!(t_ecb_cs3_dec_b2_w2_sym_l9, 48, EcbCs3, false, Cs::Cs3, U2, 2, U2, 2, 9);
cts_enc_sym!(t_ecb_cs3_enc_b4_w3_sym_l13, 48, EcbCs3, false, Cs::Cs3, U4, 4, U3, 4, 13);
// ---- thorough: other block sizes / widths, concrete lengths
cts_fixed!(t_cbc_cs1_b1_w2_l1, 64, CbcCs1, true, Cs::Cs1, U1, 1, U2, 1);
cts_fixed!(t_cbc_cs1_b1_w2_l2, 64, CbcCs1, true, Cs::Cs1, U1, 1, U2, 2);
cts_fixed!(t_cbc_cs1_b1_w2_l5, 64, CbcCs1, true, Cs::Cs1, U1, 1, U2, 5);
cts_fixed!(t_cbc_cs1_b3_w2_l3, 64, CbcCs1, true, Cs::Cs1, U3, 3, U2, 3);
cts_fixed!(t_cbc_cs1_b3_w2_l10, 64, CbcCs1, true, Cs::Cs1, U3, 3, U2, 10);
cts_fixed!(t_cbc_cs1_b3_w4_l19, 64, CbcCs1, true, Cs::Cs1, U3, 3, U4, 19);
cts_fixed!(t_cbc_cs1_b8_w1_l8, 64, CbcCs1, true, Cs::Cs1, U8, 8, U1, 8);
cts_fixed!(t_cbc_cs1_b8_w2_l17, 64, CbcCs1, true, Cs::Cs1, U8, 8, U2, 17);
cts_fixed!(t_cbc_cs1_b8_w2_l33, 64, CbcCs1, true, Cs::Cs1, U8, 8, U2, 33);
cts_fixed!(t_cbc_cs1_b16_w2_l16, 64, CbcCs1, true, Cs::Cs1, U16, 16, U2, 16);
cts_fixed!(t_cbc_cs1_b16_w2_l47, 64, CbcCs1, true, Cs::Cs1, U16, 16, U2, 47);
cts_dec_arb!(t_arb_cbc_cs1_b3_w2_l3, 64, CbcCs1, true, Cs::Cs1, U3, 3, U2, 3);
cts_dec_arb!(t_arb_cbc_cs1_b3_w2_l11, 64, CbcCs1, true, Cs::Cs1, U3, 3, U2, 11);
cts_dec_arb!(t_arb_cbc_cs1_b8_w3_l41, 64, CbcCs1, true, Cs::Cs1, U8, 8, U3, 41);
cts_dec_arb!(t_arb_cbc_cs1_b4_w1_l9, 64, CbcCs1, true, Cs::Cs1, U4, 4, U1, 9);
cts_fixed!(t_cbc_cs2_b1_w2_l1, 64, CbcCs2, true, Cs::Cs2, U1, 1, U2, 1);
cts_fixed!(t_cbc_cs2_b1_w2_l2, 64, CbcCs2, true, Cs::Cs2, U1, 1, U2, 2);
cts_fixed!(t_cbc_cs2_b1_w2_l5, 64, CbcCs2, true, Cs::Cs2, U1, 1, U2, 5);
cts_fixed!(t_cbc_cs2_b3_w2_l3, 64, CbcCs2, true, Cs::Cs2, U3, 3, U2, 3);
cts_fixed!(t_cbc_cs2_b3_w2_l10, 64, CbcCs2, true, Cs::Cs2, U3, 3, U2, 10);
cts_fixed!(t_cbc_cs2_b3_w4_l19, 64, CbcCs2, true, Cs::Cs2, U3, 3, U4, 19);
cts_fixed!(t_cbc_cs2_b8_w1_l8, 64, CbcCs2, true, Cs::Cs2, U8, 8, U1, 8);
cts_fixed!(t_cbc_cs2_b8_w2_l17, 64, CbcCs2, true, Cs::Cs2, U8, 8, U2, 17);
cts_fixed!(t_cbc_cs2_b8_w2_l33, 64, CbcCs2, true, Cs::Cs2, U8, 8, U2, 33);
cts_fixed!(t_cbc_cs2_b16_w2_l16, 64, CbcCs2, true, Cs::Cs2, U16, 16, U2, 16);
cts_fixed!(t_cbc_cs2_b16_w2_l47, 64, CbcCs2, true, Cs::Cs2, U16, 16, U2, 47);
cts_dec_arb!(t_arb_cbc_cs2_b3_w2_l3, 64, CbcCs2, true, Cs::Cs2, U3, 3, U2, 3);
cts_dec_arb!(t_arb_cbc_cs2_b3_w2_l11, 64, CbcCs2, true, Cs::Cs2, U3, 3, U2, 11);
cts_dec_arb!(t_arb_cbc_cs2_b8_w3_l41, 64, CbcCs2, true, Cs::Cs2, U8, 8, U3, 41);
cts_dec_arb!(t_arb_cbc_cs2_b4_w1_l9, 64, CbcCs2, true, Cs::Cs2, U4, 4, U1, 9);
cts_fixed!(t_cbc_cs3_b1_w2_l1, 64, CbcCs3, true, Cs::Cs3, U1, 1, U2, 1);
cts_fixed!(t_cbc_cs3_b1_w2_l2, 64, CbcCs3, true, Cs::Cs3, U1, 1, U2, 2);
cts_fixed!(t_cbc_cs3_b1_w2_l5, 64, CbcCs3, true, Cs::Cs3, U1, 1, U2, 5);
cts_fixed!(t_cbc_cs3_b3_w2_l3, 64, CbcCs3, true, Cs::Cs3, U3, 3, U2, 3);
cts_fixed!(t_cbc_cs3_b3_w2_l10, 64, CbcCs3, true, Cs::Cs3, U3, 3, U2, 10);
cts_fixed!(t_cbc_cs3_b3_w4_l19, 64, CbcCs3, true, Cs::Cs3, U3, 3, U4, 19);
cts_fixed!(t_cbc_cs3_b8_w1_l8, 64, CbcCs3, true, Cs::Cs3, U8, 8, U1, 8);
cts_fixed!(t_cbc_cs3_b8_w2_l17, 64, CbcCs3, true, Cs::Cs3, U8, 8, U2, 17);
cts_fixed!(t_cbc_cs3_b8_w2_l33, 64, CbcCs3, true, Cs::Cs3, U8, 8, U2, 33);
cts_fixed!(t_cbc_cs3_b16_w2_l16, 64, CbcCs3, true, Cs::Cs3, U16, 16, U2, 16);
cts_fixed!(t_cbc_cs3_b16_w2_l47, 64, CbcCs3, true, Cs::Cs3, U16, 16, U2, 47);
cts_dec_arb!(t_arb_cbc_cs3_b3_w2_l3, 64, CbcCs3, true, Cs::Cs3, U3, 3, U2, 3);
cts_dec_arb!(t_arb_cbc_cs3_b3_w2_l11, 64, CbcCs3, true, Cs::Cs3, U3, 3, U2, 11);
cts_dec_arb!(t_arb_cbc_cs3_b8_w3_l41, 64, CbcCs3, true, Cs::Cs3, U8, 8, U3, 41);
cts_dec_arb!(t_arb_cbc_cs3_b4_w1_l9, 64, CbcCs3, true, Cs::Cs3, U4, 4, U1, 9);
cts_fixed!(t_ecb_cs1_b1_w2_l1, 64, EcbCs1, false, Cs::Cs1, U1, 1, U2, 1);
cts_fixed!(t_ecb_cs1_b1_w2_l2, 64, EcbCs1, false, Cs::Cs1, U1, 1, U2, 2);
cts_fixed!(t_ecb_cs1_b1_w2_l5, 64, EcbCs1, false, Cs::Cs1, U1, 1, U2, 5);
cts_fixed!(t_ecb_cs1_b3_w2_l3, 64, EcbCs1, false, Cs::Cs1, U3, 3, U2, 3);
cts_fixed!(t_ecb_cs1_b3_w2_l10, 64, EcbCs1, false, Cs::Cs1, U3, 3, U2, 10);
cts_fixed!(t_ecb_cs1_b3_w4_l19, 64, EcbCs1, false, Cs::Cs1, U3, 3, U4, 19);
cts_fixed!(t_ecb_cs1_b8_w1_l8, 64, EcbCs1, false, Cs::Cs1, U8, 8, U1, 8);
cts_fixed!(t_ecb_cs1_b8_w2_l17, 64, EcbCs1, false, Cs::Cs1, U8, 8, U2, 17);
cts_fixed!(t_ecb_cs1_b8_w2_l33, 64, EcbCs1, false, Cs::Cs1, U8, 8, U2, 33);
cts_fixed!(t_ecb_cs1_b16_w2_l16, 64, EcbCs1, false, Cs::Cs1, U16, 16, U2, 16);
cts_fixed!(t_ecb_cs1_b16_w2_l47, 64, EcbCs1, false, Cs::Cs1, U16, 16, U2, 47);
cts_dec_arb!(t_arb_ecb_cs1_b3_w2_l3, 64, EcbCs1, false, Cs::Cs1, U3, 3, U2, 3);
cts_dec_arb!(t_arb_ecb_cs1_b3_w2_l11, 64, EcbCs1, false, Cs::Cs1, U3, 3, U2, 11);
cts_dec_arb!(t_arb_ecb_cs1_b8_w3_l41, 64, EcbCs1, false, Cs::Cs1, U8, 8, U3, 41);
cts_dec_arb!(t_arb_ecb_cs1_b4_w1_l9, 64, EcbCs1, false, Cs::Cs1, U4, 4, U1, 9);
cts_fixed!(t_ecb_cs2_b1_w2_l1, 64, EcbCs2, false, Cs::Cs2, U1, 1, U2, 1);
cts_fixed!(t_ecb_cs2_b1_w2_l2, 64, EcbCs2, false, Cs::Cs2, U1, 1, U2, 2);
cts_fixed!(t_ecb_cs2_b1_w2_l5, 64, EcbCs2, false, Cs::Cs2, U1, 1, U2, 5);
cts_fixed!(t_ecb_cs2_b3_w2_l3, 64, EcbCs2, false, Cs::Cs2, U3, 3, U2, 3);
cts_fixed!(t_ecb_cs2_b3_w2_l10, 64, EcbCs2, false, Cs::Cs2, U3, 3, U2, 10);
cts_fixed!(t_ecb_cs2_b3_w4_l19, 64, EcbCs2, false, Cs::Cs2, U3, 3, U4, 19);
cts_fixed!(t_ecb_cs2_b8_w1_l8, 64, EcbCs2, false, Cs::Cs2, U8, 8, U1, 8);
cts_fixed!(t_ecb_cs2_b8_w2_l17, 64, EcbCs2, false, Cs::Cs2, U8, 8, U2, 17);
cts_fixed!(t_ecb_cs2_b8_w2_l33, 64, EcbCs2, false, Cs::Cs2, U8, 8, U2, 33);
cts_fixed!(t_ecb_cs2_b16_w2_l16, 64, EcbCs2, false, Cs::Cs2, U16, 16, U2, 16);
cts_fixed!(t_ecb_cs2_b16_w2_l47, 64, EcbCs2, false, Cs::Cs2, U16, 16, U2, 47);
cts_dec_arb!(t_arb_ecb_cs2_b3_w2_l3, 64, EcbCs2, false, Cs::Cs2, U3, 3, U2, 3);
cts_dec_arb!(t_arb_ecb_cs2_b3_w2_l11, 64, EcbCs2, false, Cs::Cs2, U3, 3, U2, 11);
cts_dec_arb!(t_arb_ecb_cs2_b8_w3_l41, 64, EcbCs2, false, Cs::Cs2, U8, 8, U3, 41);
cts_dec_arb!(t_arb_ecb_cs2_b4_w1_l9, 64, EcbCs2, false, Cs::Cs2, U4, 4, U1, 9);
cts_fixed!(t_ecb_cs3_b1_w2_l1, 64, EcbCs3, false, Cs::Cs3, U1, 1, U2, 1);
cts_fixed!(t_ecb_cs3_b1_w2_l2, 64, EcbCs3, false, Cs::Cs3, U1, 1, U2, 2);
cts_fixed!(t_ecb_cs3_b1_w2_l5, 64, EcbCs3, false, Cs::Cs3, U1, 1, U2, 5);
cts_fixed!(t_ecb_cs3_b3_w2_l3, 64, EcbCs3, false, Cs::Cs3, U3, 3, U2, 3);
cts_fixed!(t_ecb_cs3_b3_w2_l10, 64, EcbCs3, false, Cs::Cs3, U3, 3, U2, 10);
cts_fixed!(t_ecb_cs3_b3_w4_l19, 64, EcbCs3, false, Cs::Cs3, U3, 3, U4, 19);
cts_fixed!(t_ecb_cs3_b8_w1_l8, 64, EcbCs3, false, Cs::Cs3, U8, 8, U1, 8);
cts_fixed!(t_ecb_cs3_b8_w2_l17, 64, EcbCs3, false, Cs::Cs3, U8, 8, U2, 17);
cts_fixed!(t_ecb_cs3_b8_w2_l33, 64, EcbCs3, false, Cs::Cs3, U8, 8, U2, 33);
cts_fixed!(t_ecb_cs3_b16_w2_l16, 64, EcbCs3, false, Cs::Cs3, U16, 16, U2, 16);
cts_fixed!(t_ecb_cs3_b16_w2_l47, 64, EcbCs3, false, Cs::Cs3, U16, 16, U2, 47);
cts_dec_arb!(t_arb_ecb_cs3_b3_w2_l3, 64, EcbCs3, false, Cs::Cs3, U3, 3, U2, 3);
cts_dec_arb!(t_arb_ecb_cs3_b3_w2_l11, 64, EcbCs3, false, Cs::Cs3, U3, 3, U2, 11);
cts_dec_arb!(t_arb_ecb_cs3_b8_w3_l41, 64, EcbCs3, false, Cs::Cs3, U8, 8, U3, 41);
cts_dec_arb!(t_arb_ecb_cs3_b4_w1_l9, 64, EcbCs3, false, Cs::Cs3, U4, 4, U1, 9);
// ---- quick: one-byte blocks, w=2, 6..8 blocks: at least TWO full parallel groups in the leading CBC/ECB run
cts_fixed!(cbc_cs1_b1_w2_l6, 48, CbcCs1, true, Cs::Cs1, U1, 1, U2, 6);
cts_fixed!(cbc_cs1_b1_w2_l7, 48, CbcCs1, true, Cs::Cs1, U1, 1, U2, 7);
cts_fixed!(cbc_cs1_b1_w2_l8, 48, CbcCs1, true, Cs::Cs1, U1, 1, U2, 8);
cts_dec_arb!(arb_cbc_cs1_b1_w2_l7, 48, CbcCs1, true, Cs::Cs1, U1, 1, U2, 7);
cts_fixed!(cbc_cs2_b1_w2_l6, 48, CbcCs2, true, Cs::Cs2, U1, 1, U2, 6);
cts_fixed!(cbc_cs2_b1_w2_l7, 48, CbcCs2, true, Cs::Cs2, U1, 1, U2, 7);
cts_fixed!(cbc_cs2_b1_w2_l8, 48, CbcCs2, true, Cs::Cs2, U1, 1, U2, 8);
cts_dec_arb!(arb_cbc_cs2_b1_w2_l7, 48, CbcCs2, true, Cs::Cs2, U1, 1, U2, 7);
cts_fixed!(cbc_cs3_b1_w2_l6, 48, CbcCs3, true, Cs::Cs3, U1, 1, U2, 6);
cts_fixed!(cbc_cs3_b1_w2_l7, 48, CbcCs3, true, Cs::Cs3, U1, 1, U2, 7);
cts_fixed!(cbc_cs3_b1_w2_l8, 48, CbcCs3, true, Cs::Cs3, U1, 1, U2, 8);
cts_dec_arb!(arb_cbc_cs3_b1_w2_l7, 48, CbcCs3, true, Cs::Cs3, U1, 1, U2, 7);
cts_fixed!(ecb_cs1_b1_w2_l6, 48, EcbCs1, false, Cs::Cs1, U1, 1, U2, 6);
cts_fixed!(ecb_cs1_b1_w2_l7, 48, EcbCs1, false, Cs::Cs1, U1, 1, U2, 7);
cts_fixed!(ecb_cs1_b1_w2_l8, 48, EcbCs1, false, Cs::Cs1, U1, 1, U2, 8);
cts_dec_arb!(arb_ecb_cs1_b1_w2_l7, 48, EcbCs1, false, Cs::Cs1, U1, 1, U2, 7);
cts_fixed!(ecb_cs2_b1_w2_l6, 48, EcbCs2, false, Cs::Cs2, U1, 1, U2, 6);
cts_fixed!(ecb_cs2_b1_w2_l7, 48, EcbCs2, false, Cs::Cs2, U1, 1, U2, 7);
cts_fixed!(ecb_cs2_b1_w2_l8, 48, EcbCs2, false, Cs::Cs2, U1, 1, U2, 8);
cts_dec_arb!(arb_ecb_cs2_b1_w2_l7, 48, EcbCs2, false, Cs::Cs2, U1, 1, U2, 7);
cts_fixed!(ecb_cs3_b1_w2_l6, 48, EcbCs3, false, Cs::Cs3, U1, 1, U2, 6);
cts_fixed!(ecb_cs3_b1_w2_l7, 48, EcbCs3, false, Cs::Cs3, U1, 1, U2, 7);
cts_fixed!(ecb_cs3_b1_w2_l8, 48, EcbCs3, false, Cs::Cs3, U1, 1, U2, 8);
cts_dec_arb!(arb_ecb_cs3_b1_w2_l7, 48, EcbCs3, false, Cs::Cs3, U1, 1, U2, 7);
// ---- thorough: b=2, w=2, 12/13 bytes (two full groups + stealing)
cts_fixed!(t_cbc_cs1_b2_w2_l12, 64, CbcCs1, true, Cs::Cs1, U2, 2, U2, 12);
cts_fixed!(t_cbc_cs1_b2_w2_l13, 64, CbcCs1, true, Cs::Cs1, U2, 2, U2, 13);
cts_fixed!(t_cbc_cs2_b2_w2_l12, 64, CbcCs2, true, Cs::Cs2, U2, 2, U2, 12);
cts_fixed!(t_cbc_cs2_b2_w2_l13, 64, CbcCs2, true, Cs::Cs2, U2, 2, U2, 13);
cts_fixed!(t_cbc_cs3_b2_w2_l12, 64, CbcCs3, true, Cs::Cs3, U2, 2, U2, 12);
cts_fixed!(t_cbc_cs3_b2_w2_l13, 64, CbcCs3, true, Cs::Cs3, U2, 2, U2, 13);
cts_fixed!(t_ecb_cs1_b2_w2_l12, 64, EcbCs1, false, Cs::Cs1, U2, 2, U2, 12);
cts_fixed!(t_ecb_cs1_b2_w2_l13, 64, EcbCs1, false, Cs::Cs1, U2, 2, U2, 13);
cts_fixed!(t_ecb_cs2_b2_w2_l12, 64, EcbCs2, false, Cs::Cs2, U2, 2, U2, 12);
cts_fixed!(t_ecb_cs2_b2_w2_l13, 64, EcbCs2, false, Cs::Cs2, U2, 2, U2, 13);
cts_fixed!(t_ecb_cs3_b2_w2_l12, 64, EcbCs3, false, Cs::Cs3, U2, 2, U2, 12);
cts_fixed!(t_ecb_cs3_b2_w2_l13, 64, EcbCs3, false, Cs::Cs3, U2, 2, U2, 13);
// ---- quick: 12-byte blocks (> 8, not a multiple of 8)
cts_fixed!(cbc_cs1_b12_w1_l12, 64, CbcCs1, true, Cs::Cs1, U12, 12, U1, 12);
cts_fixed!(cbc_cs2_b12_w2_l25, 64, CbcCs2, true, Cs::Cs2, U12, 12, U2, 25);
cts_fixed!(cbc_cs3_b12_w1_l29, 64, CbcCs3, true, Cs::Cs3, U12, 12, U1, 29);
cts_fixed!(ecb_cs1_b12_w2_l29, 64, EcbCs1, false, Cs::Cs1, U12, 12, U2, 29);
cts_fixed!(ecb_cs3_b12_w1_l24, 64, EcbCs3, false, Cs::Cs3, U12, 12, U1, 24);
