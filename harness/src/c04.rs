//! C04: CTR keystream block i = E(layout_F(IV, i)) for the six flavours; also serves C10-A
//! (set_block_pos/get_block_pos coherence for every counter value), C11-(1) (remaining_blocks
//! exact) and C09 (iv_state = next counter block).
use crate::prelude::*;

/// Core contract at an arbitrary position of the whole counter range:
/// `pos` symbolic in [0, 2^w-1-NB] (so all NB blocks are inside the keystream).
macro_rules! ctr_core_case {
    ($name:ident, $unw:expr, $flavor:ident, $spec:expr, $bs:ty, $b:expr, $ct:ty, $par:ty, $nb:expr) => {
        #[kani::proof]
        #[kani::unwind($unw)]
        pub fn $name() {
            const B: usize = $b;
            const NB: usize = $nb;
            let iv: [u8; B] = kani::any();
            let pos: $ct = kani::any();
            kani::assume(pos <= <$ct>::MAX - NB as $ct);
            let c = UfE::<$bs, $par>::with_key(kani::any());
            // specification: keystream blocks pos .. pos+NB (+2 for the single-block API, if they exist)
            let mut ks = [0u8; NB * B];
            spec::ctr_ks(c.p(), $spec, &iv, pos as u128, &mut ks);
            let mut ks2 = [0u8; 3 * B];
            spec::ctr_ks(c.p(), $spec, &iv, pos as u128 + NB as u128, &mut ks2);
            let l0 = spec::ctr_layout($spec, &iv, B, pos as u128);
            let l3 = spec::ctr_layout($spec, &iv, B, pos as u128 + NB as u128);
            // implementation
            let mut core = ctr::CtrCore::<_, ctr::flavors::$flavor>::inner_iv_init(c.clone(), blk::<$bs>(&iv));
            assert!(core.get_block_pos() as u128 == 0);
            core.set_block_pos(pos as _);
            assert!(core.get_block_pos() as u128 == (pos) as u128, "get_block_pos after set_block_pos");
            let want_rem = (<$ct>::MAX - pos) as u128;
            let rem = core.remaining_blocks();
            if want_rem <= usize::MAX as u128 {
                assert!(rem == Some(want_rem as usize), "remaining_blocks exact");
            } else {
                assert!(rem.is_none(), "remaining_blocks must be None when it does not fit usize");
            }
            let st = core.iv_state();
            let mut j = 0;
            while j < B {
                assert!(st[j] == l0[j], "iv_state is the next counter block");
                j += 1;
            }
            let orig: [u8; NB * B] = kani::any();
            let mut buf = orig;
            core.apply_keystream_blocks(blocks_mut::<$bs>(&mut buf));
            let mut i = 0;
            while i < NB * B {
                assert!(buf[i] == orig[i] ^ ks[i], "keystream block differs from E(layout(IV, i))");
                i += 1;
            }
            assert!(core.get_block_pos() as u128 == (pos + NB as $ct) as u128, "position advances by the blocks produced");
            let st = core.iv_state();
            let mut j = 0;
            while j < B {
                assert!(st[j] == l3[j], "iv_state after NB blocks");
                j += 1;
            }
            // single-block core API: in place, then buffer-to-buffer into a dirty block, then raw keystream
            if pos <= <$ct>::MAX - NB as $ct - 4 {
                let one: [u8; B] = kani::any();
                let mut b1 = one;
                core.apply_keystream_block_inout(blk_mut::<$bs>(&mut b1).into());
                let mut out: [u8; B] = kani::any();
                core.apply_keystream_block_inout((blk::<$bs>(&one), blk_mut::<$bs>(&mut out)).into());
                let mut j = 0;
                while j < B {
                    assert!(b1[j] == one[j] ^ ks2[j], "apply_keystream_block_inout (in place) differs");
                    assert!(out[j] == one[j] ^ ks2[B + j], "apply_keystream_block_inout (buffer to buffer) differs");
                    j += 1;
                }
                let mut raw = [0u8; B];
                core.write_keystream_block(blk_mut::<$bs>(&mut raw));
                let mut j = 0;
                while j < B {
                    assert!(raw[j] == ks2[2 * B + j], "write_keystream_block differs");
                    j += 1;
                }
                assert!(core.get_block_pos() as u128 == (pos + NB as $ct + 3) as u128);
            }
            kani::cover!(true);
            kani::cover!(pos == <$ct>::MAX - NB as $ct);
            kani::cover!(pos <= <$ct>::MAX - NB as $ct - 4);
        }
    };
}

/// Byte-level alias from key + IV bytes: `apply_keystream` on L bytes from offset 0.
macro_rules! ctr_alias_case {
    ($name:ident, $unw:expr, $alias:ident, $spec:expr, $bs:ty, $b:expr, $par:ty, $l:expr) => {
        #[kani::proof]
        #[kani::unwind($unw)]
        pub fn $name() {
            const B: usize = $b;
            const L: usize = $l;
            const NB: usize = (L + B - 1) / B;
            let key: [u8; 2] = kani::any();
            let iv: [u8; B] = kani::any();
            let c = UfE::<$bs, $par>::with_key(key);
            let mut ks = [0u8; NB * B];
            spec::ctr_ks(c.p(), $spec, &iv, 0, &mut ks);
            let mut s = ctr::$alias::<UfE<$bs, $par>>::new(&key.into(), blk::<$bs>(&iv));
            let orig: [u8; L + 1] = kani::any();
            let mut buf = orig;
            s.apply_keystream(&mut buf[..L]);
            let mut i = 0;
            while i < L {
                assert!(buf[i] == orig[i] ^ ks[i], "byte-level keystream differs from E(layout(IV, i))");
                i += 1;
            }
            assert!(buf[L] == orig[L], "byte beyond the request modified");
            assert!(s.current_pos::<u64>() == L as u64);
            kani::cover!(true);
        }
    };
}

// ---- quick: one block size per flavour, preferring sizes other than 16 (the repository's own AES
// vectors already sit at 16) and multi-chunk nonces; harness tier = name prefix, not position in this list
ctr_core_case!(ctr32be_b16_w2_n3, 100, Ctr32BE, spec::CTR32BE, U16, 16, u32, U2, 3); // four 32-bit words: word order matters
ctr_core_case!(t_ctr32be_b8_w2_n3, 64, Ctr32BE, spec::CTR32BE, U8, 8, u32, U2, 3);
ctr_core_case!(t_ctr32le_b8_w2_n3, 64, Ctr32LE, spec::CTR32LE, U8, 8, u32, U2, 3);
ctr_core_case!(t_ctr64be_b16_w2_n3, 64, Ctr64BE, spec::CTR64BE, U16, 16, u64, U2, 3);
ctr_core_case!(t_ctr64le_b16_w2_n3, 64, Ctr64LE, spec::CTR64LE, U16, 16, u64, U2, 3);
ctr_core_case!(t_ctr128be_b16_w2_n3, 64, Ctr128BE, spec::CTR128BE, U16, 16, u128, U2, 3);
ctr_core_case!(ctr128le_b16_w2_n3, 64, Ctr128LE, spec::CTR128LE, U16, 16, u128, U2, 3);
ctr_alias_case!(alias_ctr32be_b8_w1_l17, 64, Ctr32BE, spec::CTR32BE, U8, 8, U1, 17);
ctr_alias_case!(alias_ctr64le_b8_w2_l17, 64, Ctr64LE, spec::CTR64LE, U8, 8, U2, 17);
ctr_alias_case!(alias_ctr128be_b16_w1_l33, 80, Ctr128BE, spec::CTR128BE, U16, 16, U1, 33);

// ---- thorough: minimal block size (= counter size), multi-chunk nonces, other widths
ctr_core_case!(t_ctr32be_b4_w1_n3, 64, Ctr32BE, spec::CTR32BE, U4, 4, u32, U1, 3);
ctr_core_case!(t_ctr32le_b4_w3_n4, 64, Ctr32LE, spec::CTR32LE, U4, 4, u32, U3, 4);
ctr_core_case!(t_ctr32be_b12_w2_n3, 64, Ctr32BE, spec::CTR32BE, U12, 12, u32, U2, 3);
ctr_core_case!(ctr32le_b12_w2_n3, 64, Ctr32LE, spec::CTR32LE, U12, 12, u32, U2, 3);
ctr_core_case!(t_ctr32be_b16_w4_n5, 100, Ctr32BE, spec::CTR32BE, U16, 16, u32, U4, 5);
ctr_core_case!(t_ctr32le_b16_w1_n2, 64, Ctr32LE, spec::CTR32LE, U16, 16, u32, U1, 2);
ctr_core_case!(t_ctr32be_b20_w2_n3, 80, Ctr32BE, spec::CTR32BE, U20, 20, u32, U2, 3);
ctr_core_case!(t_ctr64be_b8_w1_n3, 64, Ctr64BE, spec::CTR64BE, U8, 8, u64, U1, 3);
ctr_core_case!(ctr64le_b8_w3_n4, 64, Ctr64LE, spec::CTR64LE, U8, 8, u64, U3, 4);
ctr_core_case!(ctr64be_b24_w2_n3, 100, Ctr64BE, spec::CTR64BE, U24, 24, u64, U2, 3);
ctr_core_case!(t_ctr64le_b24_w2_n3, 100, Ctr64LE, spec::CTR64LE, U24, 24, u64, U2, 3);
ctr_core_case!(ctr128be_b32_w2_n3, 120, Ctr128BE, spec::CTR128BE, U32, 32, u128, U2, 3);
ctr_core_case!(t_ctr128le_b32_w2_n3, 120, Ctr128LE, spec::CTR128LE, U32, 32, u128, U2, 3);
ctr_core_case!(t_ctr128be_b16_w3_n4, 80, Ctr128BE, spec::CTR128BE, U16, 16, u128, U3, 4);
ctr_core_case!(t_ctr128le_b16_w1_n2, 64, Ctr128LE, spec::CTR128LE, U16, 16, u128, U1, 2);
ctr_alias_case!(t_alias_ctr32le_b8_w2_l17, 64, Ctr32LE, spec::CTR32LE, U8, 8, U2, 17);
ctr_alias_case!(t_alias_ctr64be_b8_w1_l17, 64, Ctr64BE, spec::CTR64BE, U8, 8, U1, 17);
ctr_alias_case!(t_alias_ctr128le_b16_w2_l33, 80, Ctr128LE, spec::CTR128LE, U16, 16, U2, 33);
