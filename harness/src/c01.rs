//! C01: decryption inverts encryption for every mode, cipher, key, IV and message, through every
//! public way of driving the mode; unpadded operations preserve the length.
use crate::prelude::*;
use cipher::block_padding::Pkcs7;
use cts::{Decrypt, Encrypt};

/// Block modes: encrypt with one multi-block call, decrypt block by block (and the other way
/// round in the second half): mixed API paths, parallel bodies on one side, serial on the other.
macro_rules! rt_blocks {
    ($name:ident, $unw:expr, $krate:ident, $bs:ty, $b:expr, $ivbs:ty, $ivlen:expr, $par:ty, $n:expr, $mbs:ty, $mb:expr) => {
        #[kani::proof]
        #[kani::unwind($unw)]
        pub fn $name() {
            const MB: usize = $mb;
            const L: usize = MB * $n;
            let key: [u8; 2] = kani::any();
            let iv: [u8; $ivlen] = kani::any();
            let msg: [u8; L] = kani::any();
            // path A: encrypt_blocks (multi), decrypt_block (single)
            let mut a = msg;
            $krate::Encryptor::<Uf<$bs, $par>>::new(&key.into(), blk::<$ivbs>(&iv)).encrypt_blocks(blocks_mut::<$mbs>(&mut a));
            let ct = a;
            let mut d = $krate::Decryptor::<Uf<$bs, $par>>::new(&key.into(), blk::<$ivbs>(&iv));
            for blk in blocks_mut::<$mbs>(&mut a).iter_mut() {
                d.decrypt_block(blk);
            }
            // path B: encrypt_block (single) into a second buffer, decrypt_blocks_b2b (multi)
            let mut b = msg;
            let mut e = $krate::Encryptor::<Uf<$bs, $par>>::new(&key.into(), blk::<$ivbs>(&iv));
            for blk in blocks_mut::<$mbs>(&mut b).iter_mut() {
                e.encrypt_block(blk);
            }
            let mut out: [u8; L] = kani::any();
            assert!($krate::Decryptor::<Uf<$bs, $par>>::new(&key.into(), blk::<$ivbs>(&iv))
                .decrypt_blocks_b2b(blocks::<$mbs>(&b), blocks_mut::<$mbs>(&mut out)).is_ok());
            let mut i = 0;
            while i < L {
                assert!(a[i] == msg[i], "decrypt (single blocks) does not invert encrypt (multi-block)");
                assert!(out[i] == msg[i], "decrypt (multi-block b2b) does not invert encrypt (single blocks)");
                assert!(b[i] == ct[i], "single-block and multi-block encryption disagree");
                i += 1;
            }
            kani::cover!(true);
        }
    };
}

/// Padded (Pkcs7) round trip, concrete message length L: ciphertext length b*(L/b + 1).
macro_rules! rt_padded {
    ($name:ident, $unw:expr, $krate:ident, $cty:ident, $bs:ty, $b:expr, $ivbs:ty, $ivlen:expr, $par:ty, $l:expr, $mbs:ty, $mb:expr) => {
        #[kani::proof]
        #[kani::unwind($unw)]
        pub fn $name() {
            const L: usize = $l;
            const P: usize = $mb * (L / $mb + 1);
            let key: [u8; 2] = kani::any();
            let iv: [u8; $ivlen] = kani::any();
            let msg: [u8; L] = kani::any();
            let c = $cty::<$bs, $par>::with_key(key);
            let mut ct: [u8; P + 1] = kani::any();
            let guard = ct[P];
            let n = $krate::Encryptor::inner_iv_init(c.clone(), blk::<$ivbs>(&iv)).encrypt_padded_b2b::<Pkcs7>(&msg, &mut ct[..P]).unwrap().len();
            assert!(n == P, "padded ciphertext length is not b*(L/b + 1)");
            assert!(ct[P] == guard);
            // too small an output buffer is refused
            let mut small = [0u8; P];
            assert!($krate::Encryptor::inner_iv_init(c.clone(), blk::<$ivbs>(&iv)).encrypt_padded_b2b::<Pkcs7>(&msg, &mut small[..P - 1]).is_err());
            let r = $krate::Decryptor::inner_iv_init(c.clone(), blk::<$ivbs>(&iv)).decrypt_padded::<Pkcs7>(&mut ct[..P]);
            let pt = r.unwrap();
            assert!(pt.len() == L, "unpadded length");
            let mut i = 0;
            while i < L {
                assert!(pt[i] == msg[i], "padded decryption does not invert padded encryption");
                i += 1;
            }
            kani::cover!(true);
        }
    };
}

/// One-shot CFB / CFB-8, symbolic length.
macro_rules! rt_oneshot {
    ($name:ident, $unw:expr, $krate:ident, $bs:ty, $b:expr, $par:ty, $m:expr) => {
        #[kani::proof]
        #[kani::unwind($unw)]
        pub fn $name() {
            const B: usize = $b;
            const M: usize = $m;
            let key: [u8; 2] = kani::any();
            let iv: [u8; B] = kani::any();
            let msg: [u8; M] = kani::any();
            let len: usize = kani::any();
            kani::assume(len <= M);
            let mut buf = msg;
            let mut out: [u8; M] = kani::any();
            let dirty = out;
            split_on!(len, 0, M, l => {
                $krate::Encryptor::<UfE<$bs, $par>>::new(&key.into(), blk::<$bs>(&iv)).encrypt(&mut buf[..l]);
                assert!($krate::Decryptor::<UfE<$bs, $par>>::new(&key.into(), blk::<$bs>(&iv)).decrypt_b2b(&buf[..l], &mut out[..l]).is_ok());
            });
            let mut i = 0;
            while i < M {
                if i < len {
                    assert!(out[i] == msg[i], "one-shot decrypt does not invert one-shot encrypt");
                } else {
                    assert!(buf[i] == msg[i] && out[i] == dirty[i], "bytes beyond the message modified");
                }
                i += 1;
            }
            kani::cover!(len == M);
            kani::cover!(len == 0);
        }
    };
}

/// Buffered CFB: encrypt in pieces (a, rest), decrypt in different pieces (c, rest).
macro_rules! rt_buf {
    ($name:ident, $unw:expr, $bs:ty, $b:expr, $l:expr, $a:expr, $c:expr) => {
        #[kani::proof]
        #[kani::unwind($unw)]
        pub fn $name() {
            const B: usize = $b;
            const L: usize = $l;
            let key: [u8; 2] = kani::any();
            let iv: [u8; B] = kani::any();
            let msg: [u8; L] = kani::any();
            let mut buf = msg;
            let mut e = cfb_mode::BufEncryptor::<UfE<$bs, U1>>::new(&key.into(), blk::<$bs>(&iv));
            {
                let (p1, p2) = buf.split_at_mut($a);
                e.encrypt(p1);
                e.encrypt(p2);
            }
            let mut d = cfb_mode::BufDecryptor::<UfE<$bs, U1>>::new(&key.into(), blk::<$bs>(&iv));
            {
                let (p1, p2) = buf.split_at_mut($c);
                d.decrypt(p1);
                d.decrypt(p2);
            }
            let mut i = 0;
            while i < L {
                assert!(buf[i] == msg[i], "buffered CFB decrypt does not invert buffered encrypt");
                i += 1;
            }
            kani::cover!(true);
        }
    };
}

/// Keystream ciphers: applying the keystream twice from the same position restores the data.
/// CTR / BelT at a symbolic block position (core positioned, wrapped), OFB from a fresh object.
macro_rules! rt_stream_ctr {
    ($name:ident, $unw:expr, $flavor:ident, $ct:ty, $bs:ty, $b:expr, $par:ty, $l:expr) => {
        #[kani::proof]
        #[kani::unwind($unw)]
        pub fn $name() {
            const B: usize = $b;
            const L: usize = $l;
            let key: [u8; 2] = kani::any();
            let iv: [u8; B] = kani::any();
            let pos: $ct = <$ct>::MAX / 3; // concrete: see c08 (a symbolic position makes every wrapper call branch)
            let msg: [u8; L + 1] = kani::any();
            let mut buf = msg;
            let mk = || {
                let mut core = ctr::CtrCore::<_, ctr::flavors::$flavor>::inner_iv_init(UfE::<$bs, $par>::with_key(key), blk::<$bs>(&iv));
                core.set_block_pos(pos as _);
                StreamCipherCoreWrapper::from_core(core)
            };
            mk().apply_keystream(&mut buf[..L]);
            let mut s = mk();
            // decrypt in two calls, b2b then in place
            let mut out = [0u8; L + 1];
            out[L] = msg[L];
            s.apply_keystream_b2b(&buf[..3], &mut out[..3]).unwrap();
            s.apply_keystream(&mut buf[3..L]);
            out[3..L].copy_from_slice(&buf[3..L]);
            let mut i = 0;
            while i <= L {
                assert!(out[i] == msg[i], "applying the keystream twice does not restore the data");
                i += 1;
            }
            kani::cover!(true);
        }
    };
}
macro_rules! rt_stream_alias {
    ($name:ident, $unw:expr, $ty:ty, $bs:ty, $b:expr, $l:expr) => {
        #[kani::proof]
        #[kani::unwind($unw)]
        pub fn $name() {
            const B: usize = $b;
            const L: usize = $l;
            let key: [u8; 2] = kani::any();
            let iv: [u8; B] = kani::any();
            let msg: [u8; L + 1] = kani::any();
            let mut buf = msg;
            <$ty>::new(&key.into(), blk::<$bs>(&iv)).apply_keystream(&mut buf[..L]);
            let mut s = <$ty>::new(&key.into(), blk::<$bs>(&iv));
            s.apply_keystream(&mut buf[..1]);
            s.apply_keystream(&mut buf[1..L]);
            let mut i = 0;
            while i <= L {
                assert!(buf[i] == msg[i], "applying the keystream twice does not restore the data");
                i += 1;
            }
            kani::cover!(true);
        }
    };
}

/// CTS: symbolic length in [b, M]: decrypt(encrypt(m)) == m, nothing beyond the message touched.
macro_rules! rt_cts {
    ($name:ident, $unw:expr, $ty:ident, $bs:ty, $b:expr, $par:ty, $m:expr $(, $lo:expr)?) => {
        #[kani::proof]
        #[kani::unwind($unw)]
        pub fn $name() {
            const B: usize = $b;
            const M: usize = $m;
            #[allow(unused_mut, unused_assignments)]
            let mut lo: usize = B;
            $( lo = $lo; )?
            let key: [u8; 2] = kani::any();
            let iv: [u8; B] = kani::any();
            let msg: [u8; M] = kani::any();
            let len: usize = kani::any();
            kani::assume(len >= lo && len <= M);
            let mut buf = msg;
            let mut out: [u8; M] = kani::any();
            let dirty = out;
            split_on!(len, lo, M, l => {
                assert!(crate::common::mk::$ty(Uf::<$bs, $par>::with_key(key), &iv).encrypt(&mut buf[..l]).is_ok());
                assert!(crate::common::mk::$ty(Uf::<$bs, $par>::with_key(key), &iv).decrypt_b2b(&buf[..l], &mut out[..l]).is_ok());
            });
            let mut i = 0;
            while i < M {
                if i < len {
                    assert!(out[i] == msg[i], "CTS decrypt does not invert CTS encrypt");
                } else {
                    assert!(buf[i] == msg[i] && out[i] == dirty[i], "bytes beyond the message modified");
                }
                i += 1;
            }
            kani::cover!(len == lo);
            kani::cover!(len == M);
        }
    };
}

/// adaptor so that the generic alias macro can build BelT objects with the preset s0 (see common.rs)
pub struct BeltPreset;
impl BeltPreset {
    pub fn new(key: &Array<u8, U2>, iv: &Array<u8, U16>) -> belt_ctr::BeltCtr<UfE<U16, U2>> {
        crate::common::belt_alias::<U2>([key[0], key[1]], iv)
    }
}

/// NoPadding: whole-block messages (including the EMPTY message) round-trip through the padded API.
macro_rules! rt_nopad {
    ($name:ident, $unw:expr, $krate:ident, $bs:ty, $b:expr, $ivbs:ty, $ivlen:expr, $par:ty, $l:expr) => {
        #[kani::proof]
        #[kani::unwind($unw)]
        pub fn $name() {
            use cipher::block_padding::NoPadding;
            const L: usize = $l;
            let key: [u8; 2] = kani::any();
            let iv: [u8; $ivlen] = kani::any();
            let msg: [u8; L] = kani::any();
            let c = Uf::<$bs, $par>::with_key(key);
            let mut ct: [u8; L + 1] = kani::any();
            let n = $krate::Encryptor::inner_iv_init(c.clone(), blk::<$ivbs>(&iv)).encrypt_padded_b2b::<NoPadding>(&msg, &mut ct[..L]).unwrap().len();
            assert!(n == L, "NoPadding ciphertext length");
            let r = $krate::Decryptor::inner_iv_init(c.clone(), blk::<$ivbs>(&iv)).decrypt_padded::<NoPadding>(&mut ct[..L]);
            assert!(r.is_ok(), "whole-block ciphertext (possibly empty) rejected by decrypt_padded::<NoPadding>");
            let pt = r.unwrap();
            assert!(pt.len() == L);
            let mut i = 0;
            while i < L {
                assert!(pt[i] == msg[i], "NoPadding round trip");
                i += 1;
            }
            kani::cover!(true);
        }
    };
}

/// Seek-based round trip: encrypt L bytes sequentially from the start; a second object decrypts the
/// tail after `seek(OFF)`, and a third one after seeking to a position READ BACK from the encryptor
/// (current_pos - (L - OFF)).
macro_rules! rt_seek {
    ($name:ident, $unw:expr, $mk:expr, $b:expr, $l:expr, $off:expr) => {
        #[kani::proof]
        #[kani::unwind($unw)]
        pub fn $name() {
            const B: usize = $b;
            const L: usize = $l;
            const OFF: usize = $off;
            let key: [u8; 2] = kani::any();
            let iv: [u8; B] = kani::any();
            let msg: [u8; L] = kani::any();
            let mut ct = msg;
            let mut e = $mk(key, &iv);
            e.apply_keystream(&mut ct);
            let end = e.current_pos::<u128>();
            let mut d1 = ct;
            let mut s1 = $mk(key, &iv);
            s1.seek(OFF as u64);
            s1.apply_keystream(&mut d1[OFF..]);
            let mut d2 = ct;
            let mut s2 = $mk(key, &iv);
            s2.seek(end - (L - OFF) as u128);
            s2.apply_keystream(&mut d2[OFF..]);
            let mut i = OFF;
            while i < L {
                assert!(d1[i] == msg[i], "decrypting the tail after seek(off) does not invert sequential encryption");
                assert!(d2[i] == msg[i], "decrypting after seeking to a read-back position does not invert encryption");
                i += 1;
            }
            kani::cover!(true);
        }
    };
}
fn sk_ctr32be(key: [u8; 2], iv: &[u8; 4]) -> ctr::Ctr32BE<UfE<U4, U2>> { ctr::Ctr32BE::new(&key.into(), blk::<U4>(iv)) }
fn sk_ctr64le(key: [u8; 2], iv: &[u8; 8]) -> ctr::Ctr64LE<UfE<U8, U1>> { ctr::Ctr64LE::new(&key.into(), blk::<U8>(iv)) }
fn sk_ctr128be(key: [u8; 2], iv: &[u8; 16]) -> ctr::Ctr128BE<UfE<U16, U1>> { ctr::Ctr128BE::new(&key.into(), blk::<U16>(iv)) }
fn sk_ctr128le(key: [u8; 2], iv: &[u8; 16]) -> ctr::Ctr128LE<UfE<U16, U2>> { ctr::Ctr128LE::new(&key.into(), blk::<U16>(iv)) }
fn sk_belt(key: [u8; 2], iv: &[u8; 16]) -> belt_ctr::BeltCtr<UfE<U16, U1>> { crate::common::belt_alias::<U1>(key, iv) }

// ---- quick -----------------------------------------------------------------------------------
rt_blocks!(rt_cbc_b2_w2_n3, 48, cbc, U2, 2, U2, 2, U2, 3, U2, 2);
rt_blocks!(rt_pcbc_b2_w2_n3, 48, pcbc, U2, 2, U2, 2, U2, 3, U2, 2);
rt_blocks!(rt_ige_b2_w2_n3, 48, ige, U2, 2, U4, 4, U2, 3, U2, 2);
rt_blocks!(rt_cfb_b2_w2_n3, 48, cfb_mode, U2, 2, U2, 2, U2, 3, U2, 2);
rt_blocks!(rt_cfb8_b2_w1_n4, 48, cfb8, U2, 2, U2, 2, U1, 4, U1, 1);
rt_blocks!(rt_cfb8_b2_w4_n9, 48, cfb8, U2, 2, U2, 2, U4, 9, U1, 1); // cipher width > block size, more than one width of bytes
rt_blocks!(rt_cbc_b4_w3_n4, 64, cbc, U4, 4, U4, 4, U3, 4, U4, 4);
rt_padded!(rt_pad_cbc_b4_w2_l0, 64, cbc, Uf, U4, 4, U4, 4, U2, 0, U4, 4);
rt_padded!(rt_pad_cbc_b4_w2_l3, 64, cbc, Uf, U4, 4, U4, 4, U2, 3, U4, 4);
rt_padded!(rt_pad_cbc_b4_w2_l4, 64, cbc, Uf, U4, 4, U4, 4, U2, 4, U4, 4);
rt_padded!(rt_pad_cbc_b4_w2_l9, 64, cbc, Uf, U4, 4, U4, 4, U2, 9, U4, 4);
rt_padded!(rt_pad_pcbc_b2_w2_l3, 64, pcbc, Uf, U2, 2, U2, 2, U2, 3, U2, 2);
rt_padded!(rt_pad_ige_b2_w2_l5, 64, ige, Uf, U2, 2, U4, 4, U2, 5, U2, 2);
rt_padded!(rt_pad_cfb_b2_w2_l3, 64, cfb_mode, UfE, U2, 2, U2, 2, U2, 3, U2, 2);
rt_nopad!(rt_nopad_cbc_b2_w2_l0, 48, cbc, U2, 2, U2, 2, U2, 0);
rt_nopad!(rt_nopad_cbc_b2_w2_l4, 48, cbc, U2, 2, U2, 2, U2, 4);
rt_nopad!(rt_nopad_pcbc_b2_w2_l0, 48, pcbc, U2, 2, U2, 2, U2, 0);
rt_nopad!(rt_nopad_ige_b2_w2_l0, 48, ige, U2, 2, U4, 4, U2, 0);
rt_nopad!(rt_nopad_ige_b2_w2_l6, 48, ige, U2, 2, U4, 4, U2, 6);
rt_oneshot!(rt_cfb_oneshot_b2_w2_l7, 48, cfb_mode, U2, 2, U2, 7);
rt_oneshot!(rt_cfb8_oneshot_b2_l5, 48, cfb8, U2, 2, U1, 5);
rt_buf!(rt_buf_b2_l7_a3_c4, 48, U2, 2, 7, 3, 4);
rt_buf!(rt_buf_b4_l9_a0_c5, 48, U4, 4, 9, 0, 5);
rt_stream_ctr!(rt_ctr32be_b4_w2_l9, 48, Ctr32BE, u32, U4, 4, U2, 9);
rt_stream_ctr!(rt_ctr32le_b4_w1_l9, 48, Ctr32LE, u32, U4, 4, U1, 9);
rt_stream_ctr!(t_rt_ctr64be_b8_w1_l17, 64, Ctr64BE, u64, U8, 8, U1, 17);
rt_stream_ctr!(rt_ctr64le_b8_w2_l17, 64, Ctr64LE, u64, U8, 8, U2, 17);
rt_stream_ctr!(rt_ctr128be_b16_w1_l18, 80, Ctr128BE, u128, U16, 16, U1, 18);
rt_stream_ctr!(rt_ctr128le_b16_w2_l40, 100, Ctr128LE, u128, U16, 16, U2, 40); // one-shot: parallel group; piecewise: single blocks
rt_stream_ctr!(rt_ctr64be_b8_w2_l20, 64, Ctr64BE, u64, U8, 8, U2, 20);
rt_seek!(rt_seek_ctr32be_b4_l11_o5, 48, sk_ctr32be, 4, 11, 5);
rt_seek!(rt_seek_ctr128be_b16_l40_o32, 100, sk_ctr128be, 16, 40, 32);
rt_seek!(rt_seek_belt_l40_o19, 100, sk_belt, 16, 40, 19);
rt_stream_alias!(rt_ofb_b2_l7, 48, ofb::Ofb<UfE<U2, U2>>, U2, 2, 7);
rt_stream_alias!(rt_belt_l18, 80, BeltPreset, U16, 16, 18);
rt_cts!(rt_cts_cbc_cs1_b1_w2_l8_from6, 48, CbcCs1, U1, 1, U2, 8, 6);
rt_cts!(rt_cts_cbc_cs3_b1_w2_l8_from6, 48, CbcCs3, U1, 1, U2, 8, 6);
rt_cts!(rt_cts_ecb_cs2_b1_w2_l8_from6, 48, EcbCs2, U1, 1, U2, 8, 6);
rt_cts!(rt_cts_cbc_cs1_b2_w2_l7, 48, CbcCs1, U2, 2, U2, 7);
rt_cts!(rt_cts_cbc_cs2_b2_w2_l7, 48, CbcCs2, U2, 2, U2, 7);
rt_cts!(rt_cts_cbc_cs3_b2_w2_l7, 48, CbcCs3, U2, 2, U2, 7);
rt_cts!(rt_cts_ecb_cs1_b2_w2_l7, 48, EcbCs1, U2, 2, U2, 7);
rt_cts!(rt_cts_ecb_cs2_b2_w2_l7, 48, EcbCs2, U2, 2, U2, 7);
rt_cts!(rt_cts_ecb_cs3_b2_w2_l7, 48, EcbCs3, U2, 2, U2, 7);

// ---- thorough --------------------------------------------------------------------------------
rt_blocks!(t_rt_cbc_b1_w4_n5, 48, cbc, U1, 1, U1, 1, U4, 5, U1, 1);
rt_blocks!(t_rt_cbc_b8_w2_n3, 64, cbc, U8, 8, U8, 8, U2, 3, U8, 8);
rt_blocks!(t_rt_pcbc_b3_w3_n4, 48, pcbc, U3, 3, U3, 3, U3, 4, U3, 3);
rt_blocks!(t_rt_pcbc_b8_w2_n3, 64, pcbc, U8, 8, U8, 8, U2, 3, U8, 8);
rt_blocks!(t_rt_ige_b3_w3_n4, 48, ige, U3, 3, U6, 6, U3, 4, U3, 3);
rt_blocks!(t_rt_ige_b8_w2_n3, 64, ige, U8, 8, U16, 16, U2, 3, U8, 8);
rt_blocks!(t_rt_cfb_b1_w4_n5, 48, cfb_mode, U1, 1, U1, 1, U4, 5, U1, 1);
rt_blocks!(t_rt_cfb_b4_w3_n4, 64, cfb_mode, U4, 4, U4, 4, U3, 4, U4, 4);
rt_blocks!(t_rt_cfb_b8_w2_n3, 64, cfb_mode, U8, 8, U8, 8, U2, 3, U8, 8);
rt_blocks!(t_rt_cfb8_b1_w1_n4, 48, cfb8, U1, 1, U1, 1, U1, 4, U1, 1);
rt_blocks!(t_rt_cfb8_b4_w2_n6, 48, cfb8, U4, 4, U4, 4, U2, 6, U1, 1);
rt_blocks!(t_rt_cfb8_b8_w1_n9, 64, cfb8, U8, 8, U8, 8, U1, 9, U1, 1);
rt_padded!(t_rt_pad_cbc_b1_w2_l3, 64, cbc, Uf, U1, 1, U1, 1, U2, 3, U1, 1);
rt_padded!(t_rt_pad_cbc_b8_w2_l17, 80, cbc, Uf, U8, 8, U8, 8, U2, 17, U8, 8);
rt_padded!(t_rt_pad_pcbc_b4_w3_l12, 64, pcbc, Uf, U4, 4, U4, 4, U3, 12, U4, 4);
rt_padded!(t_rt_pad_ige_b4_w3_l11, 64, ige, Uf, U4, 4, U8, 8, U3, 11, U4, 4);
rt_padded!(t_rt_pad_cfb8_b2_l3, 64, cfb8, UfE, U2, 2, U2, 2, U1, 3, U1, 1);
rt_oneshot!(t_rt_cfb_oneshot_b3_w3_l10, 48, cfb_mode, U3, 3, U3, 10);
rt_oneshot!(t_rt_cfb_oneshot_b4_w2_l13, 48, cfb_mode, U4, 4, U2, 13);
rt_oneshot!(t_rt_cfb8_oneshot_b3_l7, 48, cfb8, U3, 3, U1, 7);
rt_buf!(t_rt_buf_b3_l10_a4_c7, 48, U3, 3, 10, 4, 7);
rt_buf!(t_rt_buf_b1_l4_a1_c3, 48, U1, 1, 4, 1, 3);
rt_seek!(t_rt_seek_ctr64le_b8_l20_o8, 64, sk_ctr64le, 8, 20, 8);
rt_seek!(t_rt_seek_ctr128le_b16_l40_o17, 100, sk_ctr128le, 16, 40, 17);
rt_stream_ctr!(t_rt_ctr32be_b16_w2_l33, 100, Ctr32BE, u32, U16, 16, U2, 33);
rt_stream_ctr!(t_rt_ctr64le_b16_w1_l33, 100, Ctr64LE, u64, U16, 16, U1, 33);
rt_stream_alias!(t_rt_ofb_b4_l13, 48, ofb::Ofb<UfE<U4, U3>>, U4, 4, 13);
rt_stream_alias!(t_rt_ofb_b16_l33, 100, ofb::Ofb<UfE<U16, U1>>, U16, 16, 33);
rt_cts!(t_rt_cts_cbc_cs1_b2_w2_l9, 48, CbcCs1, U2, 2, U2, 9);
rt_cts!(t_rt_cts_cbc_cs2_b2_w2_l9, 48, CbcCs2, U2, 2, U2, 9);
rt_cts!(t_rt_cts_cbc_cs3_b2_w2_l9, 48, CbcCs3, U2, 2, U2, 9);
rt_cts!(t_rt_cts_ecb_cs1_b2_w2_l9, 48, EcbCs1, U2, 2, U2, 9);
rt_cts!(t_rt_cts_ecb_cs2_b2_w2_l9, 48, EcbCs2, U2, 2, U2, 9);
rt_cts!(t_rt_cts_ecb_cs3_b2_w2_l9, 48, EcbCs3, U2, 2, U2, 9);
rt_cts!(t_rt_cts_cbc_cs3_b4_w3_l13, 64, CbcCs3, U4, 4, U3, 13);
rt_cts!(t_rt_cts_ecb_cs2_b4_w3_l13, 64, EcbCs2, U4, 4, U3, 13);
rt_cts!(t_rt_cts_cbc_cs1_b1_w2_l4, 48, CbcCs1, U1, 1, U2, 4);
rt_cts!(t_rt_cts_ecb_cs3_b1_w2_l4, 48, EcbCs3, U1, 1, U2, 4);
rt_cts!(t_rt_cts_cbc_cs2_b3_w2_l10, 48, CbcCs2, U3, 3, U2, 10);
