//! (harnesses for C01 not written yet)
