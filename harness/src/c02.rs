//! C02: CBC, PCBC and IGE compute exactly their defining recurrences, both directions,
//! decryptors on arbitrary ciphertext; final chaining value equals the recurrence's.
use crate::prelude::*;

/// How the blocks are fed.
pub const MULTI: u8 = 0; // one encrypt_blocks / decrypt_blocks call (parallel body + tail)
pub const SINGLE: u8 = 1; // one *_block call per block
pub const B2B: u8 = 2; // one *_blocks_b2b call into a dirty output buffer
pub const INOUT: u8 = 3; // one *_blocks_inout call (in place view)
pub const CLOSURE: u8 = 4; // custom closure calling the mode backend's *_inplace entry points

/// $spec: fn(P, iv, input, out) -> state bytes ([u8; 2*MAXB], first $ivlen meaningful)
macro_rules! chain_case {
    ($name:ident, $unw:expr, $ty:ty, $enc:ident, $spec:expr, $bs:ty, $b:expr, $ivbs:ty, $ivlen:expr, $par:ty, $n:expr, $how:expr) => {
        #[kani::proof]
        #[kani::unwind($unw)]
        pub fn $name() {
            const B: usize = $b;
            const N: usize = $n;
            const L: usize = B * N;
            let key: [u8; 2] = kani::any();
            let iv: [u8; $ivlen] = kani::any();
            let input: [u8; L] = kani::any();
            let c = Uf::<$bs, $par>::with_key(key);
            // specification first (keeps the oracle's call counter concrete)
            let mut want = [0u8; L];
            let st_want: [u8; 2 * MAXB] = $spec(c.p(), &iv[..], &input[..], &mut want[..]);
            // implementation
            let mut m = <$ty>::inner_iv_init(c.clone(), blk::<$ivbs>(&iv));
            let mut buf = input;
            let dirty: [u8; L] = kani::any();
            let mut out = dirty;
            if $how == MULTI {
                do_blocks!($enc, m, blocks_mut::<$bs>(&mut buf));
            } else if $how == SINGLE {
                for blk in blocks_mut::<$bs>(&mut buf).iter_mut() {
                    do_block!($enc, m, blk);
                }
            } else if $how == B2B {
                let r = do_blocks_b2b!($enc, m, blocks::<$bs>(&input), blocks_mut::<$bs>(&mut out));
                assert!(r.is_ok());
                buf = out;
            } else if $how == CLOSURE {
                do_closure!($enc, m, blocks_mut::<$bs>(&mut buf));
            } else {
                let io = cipher::inout::InOutBuf::from(blocks_mut::<$bs>(&mut buf));
                do_blocks_inout!($enc, m, io);
            }
            let mut i = 0;
            while i < L {
                assert!(buf[i] == want[i], "output differs from the recurrence");
                i += 1;
            }
            let st = m.iv_state();
            let mut j = 0;
            while j < $ivlen {
                assert!(st[j] == st_want[j], "final chaining value differs from the recurrence");
                j += 1;
            }
            kani::cover!(true);
        }
    };
}

fn one(s: spec::Blk) -> [u8; 2 * MAXB] {
    let mut r = [0u8; 2 * MAXB];
    let mut i = 0;
    while i < MAXB {
        r[i] = s[i];
        i += 1;
    }
    r
}
fn two(s: (spec::Blk, spec::Blk), b: usize) -> [u8; 2 * MAXB] {
    let mut r = [0u8; 2 * MAXB];
    let mut i = 0;
    while i < b {
        r[i] = s.0[i];
        r[b + i] = s.1[i];
        i += 1;
    }
    r
}
fn s_cbc_enc(p: P, iv: &[u8], m: &[u8], o: &mut [u8]) -> [u8; 2 * MAXB] { one(spec::cbc_enc(p, iv, m, o)) }
fn s_cbc_dec(p: P, iv: &[u8], m: &[u8], o: &mut [u8]) -> [u8; 2 * MAXB] { one(spec::cbc_dec(p, iv, m, o)) }
fn s_pcbc_enc(p: P, iv: &[u8], m: &[u8], o: &mut [u8]) -> [u8; 2 * MAXB] { one(spec::pcbc_enc(p, iv, m, o)) }
fn s_pcbc_dec(p: P, iv: &[u8], m: &[u8], o: &mut [u8]) -> [u8; 2 * MAXB] { one(spec::pcbc_dec(p, iv, m, o)) }
fn s_ige_enc(p: P, iv: &[u8], m: &[u8], o: &mut [u8]) -> [u8; 2 * MAXB] { two(spec::ige_enc(p, iv, m, o), p.b) }
fn s_ige_dec(p: P, iv: &[u8], m: &[u8], o: &mut [u8]) -> [u8; 2 * MAXB] { two(spec::ige_dec(p, iv, m, o), p.b) }

macro_rules! cbc_enc { ($name:ident, $unw:expr, $bs:ty, $b:expr, $par:ty, $n:expr, $how:expr) => {
    chain_case!($name, $unw, cbc::Encryptor<Uf<$bs, $par>>, enc, s_cbc_enc, $bs, $b, $bs, $b, $par, $n, $how); } }
macro_rules! cbc_dec { ($name:ident, $unw:expr, $bs:ty, $b:expr, $par:ty, $n:expr, $how:expr) => {
    chain_case!($name, $unw, cbc::Decryptor<Uf<$bs, $par>>, dec, s_cbc_dec, $bs, $b, $bs, $b, $par, $n, $how); } }
macro_rules! pcbc_enc { ($name:ident, $unw:expr, $bs:ty, $b:expr, $par:ty, $n:expr, $how:expr) => {
    chain_case!($name, $unw, pcbc::Encryptor<Uf<$bs, $par>>, enc, s_pcbc_enc, $bs, $b, $bs, $b, $par, $n, $how); } }
macro_rules! pcbc_dec { ($name:ident, $unw:expr, $bs:ty, $b:expr, $par:ty, $n:expr, $how:expr) => {
    chain_case!($name, $unw, pcbc::Decryptor<Uf<$bs, $par>>, dec, s_pcbc_dec, $bs, $b, $bs, $b, $par, $n, $how); } }
macro_rules! ige_enc { ($name:ident, $unw:expr, $bs:ty, $b:expr, $ivbs:ty, $par:ty, $n:expr, $how:expr) => {
    chain_case!($name, $unw, ige::Encryptor<Uf<$bs, $par>>, enc, s_ige_enc, $bs, $b, $ivbs, { 2 * $b }, $par, $n, $how); } }
macro_rules! ige_dec { ($name:ident, $unw:expr, $bs:ty, $b:expr, $ivbs:ty, $par:ty, $n:expr, $how:expr) => {
    chain_case!($name, $unw, ige::Decryptor<Uf<$bs, $par>>, dec, s_ige_dec, $bs, $b, $ivbs, { 2 * $b }, $par, $n, $how); } }

// ---- quick tier -------------------------------------------------------------------------
cbc_enc!(cbc_enc_b4_w1_n3_multi, 40, U4, 4, U1, 3, MULTI);
cbc_enc!(cbc_enc_b2_w2_n3_single, 40, U2, 2, U2, 3, SINGLE);
cbc_dec!(cbc_dec_b2_w2_n3_multi, 40, U2, 2, U2, 3, MULTI); // one parallel group + tail
cbc_dec!(cbc_dec_b4_w3_n4_b2b, 40, U4, 4, U3, 4, B2B); // group of 3 + tail of 1, dirty output
cbc_dec!(cbc_dec_b2_w1_n3_single, 40, U2, 2, U1, 3, SINGLE);
pcbc_enc!(pcbc_enc_b2_w2_n3_multi, 40, U2, 2, U2, 3, MULTI);
pcbc_enc!(pcbc_enc_b4_w1_n3_b2b, 40, U4, 4, U1, 3, B2B);
pcbc_dec!(pcbc_dec_b2_w2_n3_multi, 40, U2, 2, U2, 3, MULTI);
pcbc_dec!(pcbc_dec_b4_w3_n4_inout, 40, U4, 4, U3, 4, INOUT);
ige_enc!(ige_enc_b2_w2_n3_multi, 40, U2, 2, U4, U2, 3, MULTI);
ige_enc!(ige_enc_b4_w1_n3_single, 40, U4, 4, U8, U1, 3, SINGLE);
ige_dec!(ige_dec_b2_w2_n3_multi, 40, U2, 2, U4, U2, 3, MULTI);
ige_dec!(ige_dec_b4_w3_n4_b2b, 40, U4, 4, U8, U3, 4, B2B);
// 12-byte blocks (> 8, not a multiple of 8: word-wise shortcuts with a wrong remainder show here)
cbc_enc!(cbc_enc_b12_w1_n2_multi, 48, U12, 12, U1, 2, MULTI);
pcbc_dec!(pcbc_dec_b12_w2_n3_multi, 64, U12, 12, U2, 3, MULTI);
ige_enc!(ige_enc_b12_w1_n2_single, 48, U12, 12, U24, U1, 2, SINGLE);
// custom closure over the backend's *_inplace methods (block, parallel group, tail)
cbc_enc!(cbc_enc_b2_w2_n4_closure, 48, U2, 2, U2, 4, CLOSURE);
cbc_dec!(cbc_dec_b2_w2_n4_closure, 48, U2, 2, U2, 4, CLOSURE);
pcbc_enc!(pcbc_enc_b2_w2_n4_closure, 48, U2, 2, U2, 4, CLOSURE);
pcbc_dec!(pcbc_dec_b2_w2_n4_closure, 48, U2, 2, U2, 4, CLOSURE);
ige_enc!(ige_enc_b2_w2_n4_closure, 48, U2, 2, U4, U2, 4, CLOSURE);
ige_dec!(ige_dec_b2_w3_n5_closure, 48, U2, 2, U4, U3, 5, CLOSURE);
// wide backends: width 16 with a tail of 11 blocks / one full group + tail of 12 (one-byte blocks)
cbc_dec!(cbc_dec_b1_w16_n12_multi, 64, U1, 1, U16, 12, MULTI);
pcbc_dec!(pcbc_dec_b1_w16_n12_multi, 64, U1, 1, U16, 12, MULTI);
pcbc_dec!(pcbc_dec_b1_w16_n28_b2b, 80, U1, 1, U16, 28, B2B);
ige_dec!(ige_dec_b1_w16_n12_multi, 64, U1, 1, U2, U16, 12, MULTI);
cbc_enc!(cbc_enc_b1_w16_n12_multi, 64, U1, 1, U16, 12, MULTI);
// 32-byte blocks
cbc_enc!(cbc_enc_b32_w1_n2_multi, 100, U32, 32, U1, 2, MULTI);
cbc_dec!(cbc_dec_b32_w2_n3_multi, 120, U32, 32, U2, 3, MULTI);
// single-block entry points of the decryptors
pcbc_dec!(pcbc_dec_b2_w2_n3_single, 40, U2, 2, U2, 3, SINGLE);
ige_dec!(ige_dec_b2_w2_n3_single, 40, U2, 2, U4, U2, 3, SINGLE);
// zero blocks: output empty, chaining value is the IV
cbc_dec!(cbc_dec_b2_w2_n0, 40, U2, 2, U2, 0, MULTI);
ige_enc!(ige_enc_b2_w2_n0, 40, U2, 2, U4, U2, 0, MULTI);

// ---- thorough tier ----------------------------------------------------------------------
cbc_enc!(t_cbc_enc_b1_w4_n5_multi, 40, U1, 1, U4, 5, MULTI);
cbc_enc!(t_cbc_enc_b3_w2_n5_b2b, 40, U3, 3, U2, 5, B2B);
cbc_enc!(t_cbc_enc_b8_w3_n4_inout, 40, U8, 8, U3, 4, INOUT);
cbc_dec!(t_cbc_dec_b2_w2_n5_multi, 40, U2, 2, U2, 5, MULTI); // two full groups + tail
cbc_dec!(t_cbc_dec_b1_w8_n9_multi, 40, U1, 1, U8, 9, MULTI); // group of 8 + tail
cbc_dec!(t_cbc_dec_b1_w8_n33_multi, 80, U1, 1, U8, 33, MULTI); // four groups + tail
cbc_enc!(t_cbc_enc_b1_w1_n33_b2b, 80, U1, 1, U1, 33, B2B);
pcbc_dec!(t_pcbc_dec_b1_w4_n33_multi, 80, U1, 1, U4, 33, MULTI);
ige_dec!(t_ige_dec_b1_w4_n33_multi, 80, U1, 1, U2, U4, 33, MULTI);
cbc_dec!(t_cbc_dec_b3_w4_n5_inout, 40, U3, 3, U4, 5, INOUT);
cbc_dec!(t_cbc_dec_b8_w2_n3_b2b, 40, U8, 8, U2, 3, B2B);
cbc_dec!(t_cbc_dec_b16_w2_n3_multi, 64, U16, 16, U2, 3, MULTI);
pcbc_enc!(t_pcbc_enc_b1_w4_n5_multi, 40, U1, 1, U4, 5, MULTI);
pcbc_enc!(t_pcbc_enc_b3_w2_n5_single, 40, U3, 3, U2, 5, SINGLE);
pcbc_enc!(t_pcbc_enc_b8_w3_n4_inout, 40, U8, 8, U3, 4, INOUT);
pcbc_dec!(t_pcbc_dec_b2_w2_n5_multi, 40, U2, 2, U2, 5, MULTI);
pcbc_dec!(t_pcbc_dec_b1_w8_n9_multi, 40, U1, 1, U8, 9, MULTI);
pcbc_dec!(t_pcbc_dec_b3_w4_n5_b2b, 40, U3, 3, U4, 5, B2B);
pcbc_dec!(t_pcbc_dec_b8_w1_n3_single, 40, U8, 8, U1, 3, SINGLE);
ige_enc!(t_ige_enc_b1_w4_n5_multi, 40, U1, 1, U2, U4, 5, MULTI);
ige_enc!(t_ige_enc_b3_w2_n5_b2b, 40, U3, 3, U6, U2, 5, B2B);
ige_enc!(t_ige_enc_b8_w3_n4_inout, 40, U8, 8, U16, U3, 4, INOUT);
ige_dec!(t_ige_dec_b2_w2_n5_multi, 40, U2, 2, U4, U2, 5, MULTI);
ige_dec!(t_ige_dec_b1_w8_n9_multi, 40, U1, 1, U2, U8, 9, MULTI);
ige_dec!(t_ige_dec_b3_w4_n5_single, 40, U3, 3, U6, U4, 5, SINGLE);
ige_dec!(t_ige_dec_b8_w2_n3_inout, 40, U8, 8, U16, U2, 3, INOUT);
// odd block sizes (generic code paths use N::USIZE only, but word-wise "optimisations" would not)
cbc_enc!(t_cbc_enc_b5_w2_n3_multi, 40, U5, 5, U2, 3, MULTI);
cbc_dec!(t_cbc_dec_b7_w3_n4_b2b, 48, U7, 7, U3, 4, B2B);
cbc_dec!(t_cbc_dec_b12_w2_n3_multi, 48, U12, 12, U2, 3, MULTI);
pcbc_enc!(t_pcbc_enc_b7_w2_n3_inout, 48, U7, 7, U2, 3, INOUT);
pcbc_dec!(t_pcbc_dec_b5_w3_n4_multi, 48, U5, 5, U3, 4, MULTI);
pcbc_dec!(t_pcbc_dec_b12_w2_n3_b2b, 48, U12, 12, U2, 3, B2B);
ige_enc!(t_ige_enc_b5_w2_n3_multi, 48, U5, 5, U10, U2, 3, MULTI);
ige_dec!(t_ige_dec_b7_w3_n4_b2b, 64, U7, 7, U14, U3, 4, B2B);
ige_dec!(t_ige_dec_b12_w2_n3_multi, 64, U12, 12, U24, U2, 3, MULTI);
