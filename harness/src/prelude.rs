pub use crate::oracle::*;
pub use crate::spec;
pub use crate::{do_block, do_block_b2b, do_block_inout, do_blocks, do_blocks_b2b, do_blocks_inout, do_oneshot, do_oneshot_b2b};
pub use cipher::{
    array::Array, consts::*, crypto_common::InnerInit, AsyncStreamCipher, BlockModeDecrypt,
    BlockModeEncrypt, InnerIvInit, IvState, KeyInit, KeyIvInit, SeekNum, StreamCipher,
    StreamCipherCore, StreamCipherCoreWrapper, StreamCipherSeek, StreamCipherSeekCore,
};

/// Direction-polymorphic calls for macros: first argument is the literal token `enc` or `dec`.
#[macro_export]
macro_rules! do_blocks {
    (enc, $m:expr, $x:expr) => { $m.encrypt_blocks($x) };
    (dec, $m:expr, $x:expr) => { $m.decrypt_blocks($x) };
}
#[macro_export]
macro_rules! do_block {
    (enc, $m:expr, $x:expr) => { $m.encrypt_block($x) };
    (dec, $m:expr, $x:expr) => { $m.decrypt_block($x) };
}
#[macro_export]
macro_rules! do_block_b2b {
    (enc, $m:expr, $i:expr, $o:expr) => { $m.encrypt_block_b2b($i, $o) };
    (dec, $m:expr, $i:expr, $o:expr) => { $m.decrypt_block_b2b($i, $o) };
}
#[macro_export]
macro_rules! do_block_inout {
    (enc, $m:expr, $x:expr) => { $m.encrypt_block_inout($x) };
    (dec, $m:expr, $x:expr) => { $m.decrypt_block_inout($x) };
}
#[macro_export]
macro_rules! do_blocks_b2b {
    (enc, $m:expr, $i:expr, $o:expr) => { $m.encrypt_blocks_b2b($i, $o) };
    (dec, $m:expr, $i:expr, $o:expr) => { $m.decrypt_blocks_b2b($i, $o) };
}
#[macro_export]
macro_rules! do_blocks_inout {
    (enc, $m:expr, $x:expr) => { $m.encrypt_blocks_inout($x) };
    (dec, $m:expr, $x:expr) => { $m.decrypt_blocks_inout($x) };
}
/// One-shot AsyncStreamCipher calls (consume the object).
#[macro_export]
macro_rules! do_oneshot {
    (enc, $m:expr, $x:expr) => { $m.encrypt($x) };
    (dec, $m:expr, $x:expr) => { $m.decrypt($x) };
}
#[macro_export]
macro_rules! do_oneshot_b2b {
    (enc, $m:expr, $i:expr, $o:expr) => { $m.encrypt_b2b($i, $o) };
    (dec, $m:expr, $i:expr, $o:expr) => { $m.decrypt_b2b($i, $o) };
}
