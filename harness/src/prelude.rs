pub use crate::oracle::*;
pub use crate::spec;
pub use crate::{do_closure, split_on, do_block, do_block_b2b, do_block_inout, do_blocks, do_blocks_b2b, do_blocks_inout, do_oneshot, do_oneshot_b2b};
pub use cipher::{
    array::Array, consts::*, crypto_common::InnerInit, AsyncStreamCipher, BlockModeDecrypt,
    BlockModeEncrypt, InnerIvInit, IvState, KeyInit, KeyIvInit, SeekNum, StreamCipher,
    StreamCipherCore, StreamCipherCoreWrapper, StreamCipherSeek, StreamCipherSeekCore,
};

/// Direction-polymorphic calls for macros: first argument is the literal token `enc` or `dec`.
#[macro_export]
macro_rules! do_blocks {
    (enc, $m:expr, $x:expr) => { $m.encrypt_blocks($x) };
    (dec, $m:expr, $x:expr) => { $m.decrypt_blocks($x) };
}
#[macro_export]
macro_rules! do_block {
    (enc, $m:expr, $x:expr) => { $m.encrypt_block($x) };
    (dec, $m:expr, $x:expr) => { $m.decrypt_block($x) };
}
#[macro_export]
macro_rules! do_block_b2b {
    (enc, $m:expr, $i:expr, $o:expr) => { $m.encrypt_block_b2b($i, $o) };
    (dec, $m:expr, $i:expr, $o:expr) => { $m.decrypt_block_b2b($i, $o) };
}
#[macro_export]
macro_rules! do_block_inout {
    (enc, $m:expr, $x:expr) => { $m.encrypt_block_inout($x) };
    (dec, $m:expr, $x:expr) => { $m.decrypt_block_inout($x) };
}
#[macro_export]
macro_rules! do_blocks_b2b {
    (enc, $m:expr, $i:expr, $o:expr) => { $m.encrypt_blocks_b2b($i, $o) };
    (dec, $m:expr, $i:expr, $o:expr) => { $m.decrypt_blocks_b2b($i, $o) };
}
#[macro_export]
macro_rules! do_blocks_inout {
    (enc, $m:expr, $x:expr) => { $m.encrypt_blocks_inout($x) };
    (dec, $m:expr, $x:expr) => { $m.decrypt_blocks_inout($x) };
}
/// One-shot AsyncStreamCipher calls (consume the object).
#[macro_export]
macro_rules! do_oneshot {
    (enc, $m:expr, $x:expr) => { $m.encrypt($x) };
    (dec, $m:expr, $x:expr) => { $m.decrypt($x) };
}
#[macro_export]
macro_rules! do_oneshot_b2b {
    (enc, $m:expr, $i:expr, $o:expr) => { $m.encrypt_b2b($i, $o) };
    (dec, $m:expr, $i:expr, $o:expr) => { $m.decrypt_b2b($i, $o) };
}

/// Case split on the concrete value of a symbolic size: `split_on!(len, LO, HI, l => { ... })`
/// runs the body once per value l in [LO, HI] under the guard `len == l`.  The claim is unchanged
/// (the branches are exhaustive and mutually exclusive under `LO <= len <= HI`), but inside each
/// branch every loop bound is concrete, and the oracle's call counter is rewound to its value
/// before the split so that it stays concrete too.  Nothing after the split may call the oracle.
#[macro_export]
macro_rules! split_on {
    ($v:expr, $lo:expr, $hi:expr, $l:ident => $body:block) => {{
        let (n0__, nd0__) = ($crate::oracle::calls(), $crate::oracle::dec_calls());
        let mut $l: usize = $lo;
        while $l <= $hi {
            if $v == $l {
                $crate::oracle::set_calls(n0__, nd0__);
                $body
            }
            $l += 1;
        }
    }};
}

/// Feed blocks through a custom closure using the backend's `*_inplace` entry points.
#[macro_export]
macro_rules! do_closure {
    (enc, $m:expr, $x:expr) => { $m.encrypt_with_backend($crate::common::InplaceEnc { blocks: $x }) };
    (dec, $m:expr, $x:expr) => { $m.decrypt_with_backend($crate::common::InplaceDec { blocks: $x }) };
}
