//! Reference models: the textbook recurrences, transcribed from the property statements.
//! They share no code with /repo and talk to the cipher only through `oracle::P`.
//!
//! All functions work on plain byte slices; `b` (block size) comes from `p.b`.
use crate::oracle::{MAXB, P};

pub type Blk = [u8; MAXB];

#[inline(always)]
fn load(src: &[u8], b: usize) -> Blk {
    let mut r = [0u8; MAXB];
    let mut i = 0;
    while i < b {
        r[i] = src[i];
        i += 1;
    }
    r
}

/// CBC: C_i = E(P_i ^ C_{i-1}), C_0 = IV.  Returns the final chaining value C_n.
pub fn cbc_enc(p: P, iv: &[u8], msg: &[u8], out: &mut [u8]) -> Blk {
    let b = p.b;
    let n = msg.len() / b;
    let mut prev = load(iv, b);
    let mut i = 0;
    while i < n {
        let mut t = [0u8; MAXB];
        let mut j = 0;
        while j < b {
            t[j] = msg[i * b + j] ^ prev[j];
            j += 1;
        }
        let e = p.e(&t);
        let mut j = 0;
        while j < b {
            out[i * b + j] = e[j];
            prev[j] = e[j];
            j += 1;
        }
        i += 1;
    }
    prev
}
/// CBC decrypt: P_i = D(C_i) ^ C_{i-1}.  Returns C_n.
pub fn cbc_dec(p: P, iv: &[u8], ct: &[u8], out: &mut [u8]) -> Blk {
    let b = p.b;
    let n = ct.len() / b;
    let mut prev = load(iv, b);
    let mut i = 0;
    while i < n {
        let x = p.d(&ct[i * b..i * b + b]);
        let mut j = 0;
        while j < b {
            out[i * b + j] = x[j] ^ prev[j];
            prev[j] = ct[i * b + j];
            j += 1;
        }
        i += 1;
    }
    prev
}
/// PCBC: C_i = E(P_i ^ S_{i-1}), S_0 = IV, S_i = P_i ^ C_i.  Returns S_n.
pub fn pcbc_enc(p: P, iv: &[u8], msg: &[u8], out: &mut [u8]) -> Blk {
    let b = p.b;
    let n = msg.len() / b;
    let mut s = load(iv, b);
    let mut i = 0;
    while i < n {
        let mut t = [0u8; MAXB];
        let mut j = 0;
        while j < b {
            t[j] = msg[i * b + j] ^ s[j];
            j += 1;
        }
        let e = p.e(&t);
        let mut j = 0;
        while j < b {
            out[i * b + j] = e[j];
            s[j] = msg[i * b + j] ^ e[j];
            j += 1;
        }
        i += 1;
    }
    s
}
/// PCBC decrypt: P_i = D(C_i) ^ S_{i-1}; S_i = P_i ^ C_i.  Returns S_n.
pub fn pcbc_dec(p: P, iv: &[u8], ct: &[u8], out: &mut [u8]) -> Blk {
    let b = p.b;
    let n = ct.len() / b;
    let mut s = load(iv, b);
    let mut i = 0;
    while i < n {
        let x = p.d(&ct[i * b..i * b + b]);
        let mut j = 0;
        while j < b {
            let pt = x[j] ^ s[j];
            out[i * b + j] = pt;
            s[j] = pt ^ ct[i * b + j];
            j += 1;
        }
        i += 1;
    }
    s
}
/// IGE: C_i = E(P_i ^ C_{i-1}) ^ P_{i-1}; IV (2b bytes) = C_0 || P_0.
/// Returns (C_n, P_n).
pub fn ige_enc(p: P, iv: &[u8], msg: &[u8], out: &mut [u8]) -> (Blk, Blk) {
    let b = p.b;
    let n = msg.len() / b;
    let mut cprev = load(&iv[..b], b);
    let mut pprev = load(&iv[b..], b);
    let mut i = 0;
    while i < n {
        let mut t = [0u8; MAXB];
        let mut j = 0;
        while j < b {
            t[j] = msg[i * b + j] ^ cprev[j];
            j += 1;
        }
        let e = p.e(&t);
        let mut j = 0;
        while j < b {
            let c = e[j] ^ pprev[j];
            out[i * b + j] = c;
            cprev[j] = c;
            pprev[j] = msg[i * b + j];
            j += 1;
        }
        i += 1;
    }
    (cprev, pprev)
}
/// IGE decrypt: P_i = D(C_i ^ P_{i-1}) ^ C_{i-1}.
pub fn ige_dec(p: P, iv: &[u8], ct: &[u8], out: &mut [u8]) -> (Blk, Blk) {
    let b = p.b;
    let n = ct.len() / b;
    let mut cprev = load(&iv[..b], b);
    let mut pprev = load(&iv[b..], b);
    let mut i = 0;
    while i < n {
        let mut t = [0u8; MAXB];
        let mut j = 0;
        while j < b {
            t[j] = ct[i * b + j] ^ pprev[j];
            j += 1;
        }
        let x = p.d(&t);
        let mut j = 0;
        while j < b {
            let pt = x[j] ^ cprev[j];
            out[i * b + j] = pt;
            cprev[j] = ct[i * b + j];
            pprev[j] = pt;
            j += 1;
        }
        i += 1;
    }
    (cprev, pprev)
}

/// Full-block CFB on `nblk` whole blocks followed by `tail` (< b) bytes, concrete geometry.
/// `enc`: true = encrypt (feedback = output), false = decrypt (feedback = input).
/// Returns the chaining value after the whole blocks (= last ciphertext block).
pub fn cfb(p: P, enc: bool, iv: &[u8], msg: &[u8], out: &mut [u8]) -> Blk {
    let b = p.b;
    let n = msg.len() / b;
    let tail = msg.len() - n * b;
    let mut prev = load(iv, b);
    let mut i = 0;
    while i < n {
        let e = p.e(&prev);
        let mut j = 0;
        while j < b {
            let o = msg[i * b + j] ^ e[j];
            out[i * b + j] = o;
            prev[j] = if enc { o } else { msg[i * b + j] };
            j += 1;
        }
        i += 1;
    }
    if tail > 0 {
        let e = p.e(&prev);
        let mut j = 0;
        while j < tail {
            out[n * b + j] = msg[n * b + j] ^ e[j];
            j += 1;
        }
    }
    prev
}

/// CFB with a *symbolic* length `len <= M`: makes exactly `M / b + 1` oracle calls whatever
/// `len` is (so the oracle's call counter stays concrete).  Bytes at and beyond `len` are
/// copied through.  This is the per-byte reading of the recurrence: byte i is XORed with
/// byte (i mod b) of E(feedback block i / b).
pub fn cfb_symlen<const M: usize>(p: P, enc: bool, iv: &[u8], msg: &[u8; M], len: usize) -> [u8; M] {
    let b = p.b;
    let mut out = *msg;
    let mut prev = load(iv, b);
    let nb = M / b + 1;
    let mut i = 0;
    while i < nb {
        let e = p.e(&prev);
        let mut j = 0;
        while j < b {
            let idx = i * b + j;
            if idx < M {
                if idx < len {
                    out[idx] = msg[idx] ^ e[j];
                }
                prev[j] = if enc { out[idx] } else { msg[idx] };
            }
            j += 1;
        }
        i += 1;
    }
    out
}

/// CFB-8: c_j = p_j ^ first_byte(E(S_j)); S_{j+1} = (S_j << 8) | c_j.  Returns S_len.
pub fn cfb8(p: P, enc: bool, iv: &[u8], msg: &[u8], out: &mut [u8]) -> Blk {
    let b = p.b;
    let mut s = load(iv, b);
    let mut i = 0;
    while i < msg.len() {
        let e = p.e(&s);
        let o = msg[i] ^ e[0];
        out[i] = o;
        let fb = if enc { o } else { msg[i] };
        let mut j = 0;
        while j + 1 < b {
            s[j] = s[j + 1];
            j += 1;
        }
        s[b - 1] = fb;
        i += 1;
    }
    s
}
/// CFB-8 with symbolic length: exactly M oracle calls.
pub fn cfb8_symlen<const M: usize>(p: P, enc: bool, iv: &[u8], msg: &[u8; M], len: usize) -> [u8; M] {
    let b = p.b;
    let mut out = *msg;
    let mut s = load(iv, b);
    let mut i = 0;
    while i < M {
        let e = p.e(&s);
        if i < len {
            out[i] = msg[i] ^ e[0];
        }
        let fb = if enc { out[i] } else { msg[i] };
        let mut j = 0;
        while j + 1 < b {
            s[j] = s[j + 1];
            j += 1;
        }
        s[b - 1] = fb;
        i += 1;
    }
    out
}

/// OFB keystream: O_i = E(O_{i-1}), O_0 = IV; writes nblk blocks, returns O_n.
pub fn ofb_ks(p: P, iv: &[u8], ks: &mut [u8]) -> Blk {
    let b = p.b;
    let n = ks.len() / b;
    let mut o = load(iv, b);
    let mut i = 0;
    while i < n {
        let e = p.e(&o);
        let mut j = 0;
        while j < b {
            o[j] = e[j];
            ks[i * b + j] = e[j];
            j += 1;
        }
        i += 1;
    }
    o
}

/// The six CTR flavours of the property text.
#[derive(Clone, Copy, PartialEq)]
pub struct Flavor {
    /// counter width in bytes: 4, 8, 16
    pub w: usize,
    pub be: bool,
}
pub const CTR32BE: Flavor = Flavor { w: 4, be: true };
pub const CTR32LE: Flavor = Flavor { w: 4, be: false };
pub const CTR64BE: Flavor = Flavor { w: 8, be: true };
pub const CTR64LE: Flavor = Flavor { w: 8, be: false };
pub const CTR128BE: Flavor = Flavor { w: 16, be: true };
pub const CTR128LE: Flavor = Flavor { w: 16, be: false };

/// Counter block number `i` (any u128; reduced mod 2^(8w)): the IV with its counter field
/// (last w bytes big-endian for BE, first w bytes little-endian for LE) replaced by
/// (field + i) mod 2^(8w); every other byte passed through.
pub fn ctr_layout(f: Flavor, iv: &[u8], b: usize, i: u128) -> Blk {
    let mut blk = load(iv, b);
    let off = if f.be { b - f.w } else { 0 };
    // read field
    let mut field: u128 = 0;
    let mut j = 0;
    while j < f.w {
        let byte = if f.be { iv[off + j] } else { iv[off + f.w - 1 - j] };
        field = (field << 8) | byte as u128;
        j += 1;
    }
    let mask: u128 = if f.w == 16 { u128::MAX } else { (1u128 << (8 * f.w)) - 1 };
    let v = field.wrapping_add(i) & mask;
    let mut j = 0;
    while j < f.w {
        let byte = (v >> (8 * (f.w - 1 - j))) as u8; // j-th most significant byte
        if f.be {
            blk[off + j] = byte;
        } else {
            blk[off + f.w - 1 - j] = byte;
        }
        j += 1;
    }
    blk
}
/// CTR keystream blocks i0, i0+1, ... into `ks`.
pub fn ctr_ks(p: P, f: Flavor, iv: &[u8], i0: u128, ks: &mut [u8]) {
    let b = p.b;
    let n = ks.len() / b;
    let mut i = 0;
    while i < n {
        let e = p.e(&ctr_layout(f, iv, b, i0.wrapping_add(i as u128)));
        let mut j = 0;
        while j < b {
            ks[i * b + j] = e[j];
            j += 1;
        }
        i += 1;
    }
}

/// BelT-CTR: s0 = LE128(E(IV)); keystream block i (i = 0, 1, ...) = E(LE(s0 + i + 1 mod 2^128)).
pub fn belt_s0(p: P, iv: &[u8]) -> u128 {
    let e = p.e(iv);
    let mut a = [0u8; 16];
    let mut j = 0;
    while j < 16 {
        a[j] = e[j];
        j += 1;
    }
    u128::from_le_bytes(a)
}
pub fn belt_ks(p: P, s0: u128, i0: u128, ks: &mut [u8]) {
    let n = ks.len() / 16;
    let mut i = 0;
    while i < n {
        let s = s0.wrapping_add(i0).wrapping_add(i as u128).wrapping_add(1);
        let e = p.e(&s.to_le_bytes());
        let mut j = 0;
        while j < 16 {
            ks[i * 16 + j] = e[j];
            j += 1;
        }
        i += 1;
    }
}

#[derive(Clone, Copy, PartialEq)]
pub enum Cs {
    Cs1,
    Cs2,
    Cs3,
}

/// NIST SP 800-38A addendum, CBC-CSx / ECB-CSx encryption, symbolic length `len` in [b, M].
/// Always makes exactly NB = ceil(M / b) oracle calls (dummy inputs for absent blocks).
///
/// CBC: C_1..C_n = CBC(zero-padded message); C*_{n-1} = first d bytes of C_{n-1};
///   CS1 = C_1..C_{n-2} || C*_{n-1} || C_n ; CS3 = ... || C_n || C*_{n-1};
///   CS2 = CS1 if d = b else CS3.  n = 1: plain CBC.
/// ECB: the last block is completed with the trailing b-d bytes of C_{n-1} instead of zeros.
pub fn cts_enc<const M: usize, const NB: usize>(p: P, cbc: bool, v: Cs, iv: &[u8], msg: &[u8; M], len: usize) -> [u8; M] {
    let b = p.b;
    let n = (len + b - 1) / b;
    let d = len - (n - 1) * b;
    let mut out = [0u8; M];
    let mut cb = [[0u8; MAXB]; NB];
    let mut prev = if cbc { load(iv, b) } else { [0u8; MAXB] };
    let mut i = 0;
    while i < NB {
        let mut t = [0u8; MAXB];
        let mut j = 0;
        while j < b {
            let idx = i * b + j;
            let pb = if idx < len {
                msg[idx]
            } else if cbc || i == 0 {
                0
            } else {
                cb[i - 1][j]
            };
            t[j] = if cbc { pb ^ prev[j] } else { pb };
            j += 1;
        }
        let e = p.e(&t); // for i >= n a harmless extra query
        if i < n {
            let mut j = 0;
            while j < b {
                cb[i][j] = e[j];
                prev[j] = e[j];
                j += 1;
            }
        }
        i += 1;
    }
    let swap = n >= 2
        && match v {
            Cs::Cs1 => false,
            Cs::Cs2 => d < b,
            Cs::Cs3 => true,
        };
    let head = if n >= 2 { (n - 2) * b } else { 0 };
    let mut i = 0;
    while i < M {
        out[i] = if i >= len {
            msg[i]
        } else if n == 1 {
            cb[0][i]
        } else if i < head {
            cb[i / b][i % b]
        } else if swap {
            if i < head + b { cb[n - 1][i - head] } else { cb[n - 2][i - head - b] }
        } else if i < head + d {
            cb[n - 2][i - head]
        } else {
            cb[n - 1][i - head - d]
        };
        i += 1;
    }
    out
}

/// NIST decryption procedure for CBC-CSx / ECB-CSx on *arbitrary* ciphertext, concrete length.
/// (Written from the addendum's decryption algorithm, not by inverting `cts_enc`.)
pub fn cts_dec(p: P, cbc: bool, v: Cs, iv: &[u8], ct: &[u8], out: &mut [u8]) {
    let b = p.b;
    let len = ct.len();
    let n = (len + b - 1) / b;
    let d = len - (n - 1) * b;
    if n == 1 {
        let x = p.d(ct);
        let mut j = 0;
        while j < b {
            out[j] = if cbc { x[j] ^ iv[j] } else { x[j] };
            j += 1;
        }
        return;
    }
    let head = (n - 2) * b;
    // leading blocks: plain CBC / ECB decryption
    let mut prev = if cbc { load(iv, b) } else { [0u8; MAXB] };
    let mut i = 0;
    while i + 2 < n {
        let x = p.d(&ct[i * b..i * b + b]);
        let mut j = 0;
        while j < b {
            out[i * b + j] = x[j] ^ prev[j];
            if cbc {
                prev[j] = ct[i * b + j];
            }
            j += 1;
        }
        i += 1;
    }
    // locate C*_{n-1} (d bytes) and C_n (b bytes) in the last b+d bytes
    let swap = match v {
        Cs::Cs1 => false,
        Cs::Cs2 => d < b,
        Cs::Cs3 => true,
    };
    let mut cstar = [0u8; MAXB];
    let mut cn = [0u8; MAXB];
    let mut j = 0;
    while j < b {
        if swap {
            cn[j] = ct[head + j];
        } else {
            cn[j] = ct[head + d + j];
        }
        j += 1;
    }
    let mut j = 0;
    while j < d {
        cstar[j] = if swap { ct[head + b + j] } else { ct[head + j] };
        j += 1;
    }
    // Z = D(C_n); C_{n-1} = C* || last b-d bytes of Z (ECB: of Z; CBC: Z = P_n* ^ C_{n-1}, whose
    // tail equals the tail of C_{n-1} because the padding is zero)
    let z = p.d(&cn);
    let mut cfull = [0u8; MAXB];
    let mut j = 0;
    while j < b {
        cfull[j] = if j < d { cstar[j] } else { z[j] };
        j += 1;
    }
    let y = p.d(&cfull);
    let mut j = 0;
    while j < b {
        out[head + j] = y[j] ^ prev[j]; // P_{n-1}
        j += 1;
    }
    let mut j = 0;
    while j < d {
        out[head + b + j] = if cbc { z[j] ^ cfull[j] } else { z[j] }; // P_n*
        j += 1;
    }
}
