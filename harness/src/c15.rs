//! C15: error propagation and data dependence match each mode's definition.
//!
//! Two decryptions over the same permutation of c and c xor delta@j (delta != 0).
//! "Garbled" (a block that must change) is provable because D / E are injective;
//! "every later block changes" for PCBC / IGE is not true of every permutation (D(x^d) = D(x)^d
//! is possible), so it is decided as: block j differs (provable) AND a cover that all later
//! blocks differ is satisfiable; the exact recurrence itself is C02.
use crate::prelude::*;

fn differs(a: &[u8], b: &[u8]) -> bool {
    let mut d = false;
    let mut i = 0;
    while i < a.len() {
        d |= a[i] != b[i];
        i += 1;
    }
    d
}

/// CBC-like (kind 0): blocks <j equal; block j differs; block j+1 differs by exactly delta; later equal.
/// CFB-like (kind 1): blocks <j equal; block j differs by exactly delta; block j+1 differs; later equal.
/// PCBC/IGE (kind 2): blocks <j equal; block j differs; cover: all later blocks differ.
macro_rules! block_prop {
    ($name:ident, $unw:expr, $ty:ident :: $t2:ident, $kind:expr, $bs:ty, $b:expr, $ivbs:ty, $ivlen:expr, $par:ty, $n:expr, $j:expr) => {
        #[kani::proof]
        #[kani::unwind($unw)]
        pub fn $name() {
            const B: usize = $b;
            const N: usize = $n;
            const J: usize = $j;
            let iv: [u8; $ivlen] = kani::any();
            let ct: [u8; B * N] = kani::any();
            let delta: [u8; B] = kani::any();
            let zero = [0u8; B];
            kani::assume(differs(&delta, &zero));
            let mut ct2 = ct;
            let mut k = 0;
            while k < B {
                ct2[J * B + k] ^= delta[k];
                k += 1;
            }
            let c = Uf::<$bs, $par>::with_key(kani::any());
            let mut p1 = ct;
            let mut p2 = ct2;
            $ty::$t2::inner_iv_init(c.clone(), blk::<$ivbs>(&iv)).decrypt_blocks(blocks_mut::<$bs>(&mut p1));
            $ty::$t2::inner_iv_init(c.clone(), blk::<$ivbs>(&iv)).decrypt_blocks(blocks_mut::<$bs>(&mut p2));
            let mut i = 0;
            while i < J * B {
                assert!(p1[i] == p2[i], "a block before the altered one changed");
                i += 1;
            }
            let dj = differs(&p1[J * B..J * B + B], &p2[J * B..J * B + B]);
            if $kind == 0 {
                assert!(dj, "CBC: the altered block must decrypt differently");
                if J + 1 < N {
                    let mut k = 0;
                    while k < B {
                        assert!(p1[(J + 1) * B + k] ^ p2[(J + 1) * B + k] == delta[k], "CBC: block j+1 must differ by exactly delta");
                        k += 1;
                    }
                }
                let mut i = (J + 2) * B;
                while i < N * B {
                    assert!(p1[i] == p2[i], "CBC: no re-synchronisation after block j+1");
                    i += 1;
                }
            } else if $kind == 1 {
                let mut k = 0;
                while k < B {
                    assert!(p1[J * B + k] ^ p2[J * B + k] == delta[k], "CFB: block j must differ by exactly delta");
                    k += 1;
                }
                if J + 1 < N {
                    assert!(differs(&p1[(J + 1) * B..(J + 2) * B], &p2[(J + 1) * B..(J + 2) * B]), "CFB: block j+1 must be garbled");
                }
                let mut i = (J + 2) * B;
                while i < N * B {
                    assert!(p1[i] == p2[i], "CFB: no re-synchronisation after block j+1");
                    i += 1;
                }
            } else {
                assert!(dj, "PCBC/IGE: the altered block must decrypt differently");
            }
            let mut all_later = true;
            let mut q = J + 1;
            while q < N {
                all_later &= differs(&p1[q * B..q * B + B], &p2[q * B..q * B + B]);
                q += 1;
            }
            // PCBC / IGE: "every later block changes" must at least be possible
            kani::cover!($kind != 2 || all_later, "every later block changes (PCBC/IGE)");
            kani::cover!(true);
        }
    };
}

/// CFB-8 decryption: byte j differs by exactly delta; bytes j+1..j+b may differ (cover: each can);
/// bytes before j and after j+b are equal.
macro_rules! cfb8_prop {
    ($name:ident, $unw:expr, $bs:ty, $b:expr, $l:expr) => {
        #[kani::proof]
        #[kani::unwind($unw)]
        pub fn $name() {
            const B: usize = $b;
            const L: usize = $l;
            let iv: [u8; B] = kani::any();
            let ct: [u8; L] = kani::any();
            let delta: u8 = kani::any();
            kani::assume(delta != 0);
            let j: usize = kani::any();
            kani::assume(j < L);
            let mut ct2 = ct;
            ct2[j] ^= delta;
            let c = UfE::<$bs, U1>::with_key(kani::any());
            let mut p1 = ct;
            let mut p2 = ct2;
            cfb8::Decryptor::inner_iv_init(c.clone(), blk::<$bs>(&iv)).decrypt(&mut p1);
            cfb8::Decryptor::inner_iv_init(c.clone(), blk::<$bs>(&iv)).decrypt(&mut p2);
            let mut i = 0;
            while i < L {
                if i < j {
                    assert!(p1[i] == p2[i], "CFB-8: a byte before the altered one changed");
                } else if i == j {
                    assert!(p1[i] ^ p2[i] == delta, "CFB-8: byte j must differ by exactly delta");
                } else if i > j + B {
                    assert!(p1[i] == p2[i], "CFB-8: no re-synchronisation after b bytes");
                }
                i += 1;
            }
            kani::cover!(j == 0 && p1[1] != p2[1] && p1[B] != p2[B], "following bytes can be garbled");
            kani::cover!(j + B + 1 < L);
        }
    };
}

/// Keystream modes: dec(c xor delta) == dec(c) xor delta everywhere; keystream independent of data
/// (out1 xor in1 == out2 xor in2) and final position / state equal.
macro_rules! stream_prop {
    ($name:ident, $unw:expr, $mk:expr, $b:expr, $l:expr) => {
        #[kani::proof]
        #[kani::unwind($unw)]
        pub fn $name() {
            const B: usize = $b;
            const L: usize = $l;
            let key: [u8; 2] = kani::any();
            let iv: [u8; B] = kani::any();
            let d1: [u8; L] = kani::any();
            let d2: [u8; L] = kani::any();
            let mut o1 = d1;
            let mut o2 = d2;
            let mut s1 = $mk(key, &iv);
            let mut s2 = $mk(key, &iv);
            // different call schedules as well
            s1.apply_keystream(&mut o1);
            {
                let (a, b) = o2.split_at_mut(3);
                s2.apply_keystream(a);
                s2.apply_keystream(b);
            }
            let mut i = 0;
            while i < L {
                assert!(o1[i] ^ d1[i] == o2[i] ^ d2[i], "keystream depends on the data processed");
                i += 1;
            }
            // the next keystream byte is the same too
            let mut n1 = [0u8; 1];
            let mut n2 = [0u8; 1];
            s1.apply_keystream(&mut n1);
            s2.apply_keystream(&mut n2);
            assert!(n1[0] == n2[0]);
            kani::cover!(true);
        }
    };
}

/// Causality: two inputs equal up to (and including) block j give outputs equal up to block j.
macro_rules! causal_case {
    ($name:ident, $unw:expr, $ty:ident :: $t2:ident, $dir:ident, $bs:ty, $b:expr, $ivbs:ty, $ivlen:expr, $par:ty, $n:expr, $mbs:ty, $mb:expr) => {
        #[kani::proof]
        #[kani::unwind($unw)]
        pub fn $name() {
            const MB: usize = $mb;
            const N: usize = $n;
            const L: usize = MB * N;
            let iv: [u8; $ivlen] = kani::any();
            let x1: [u8; L] = kani::any();
            let x2: [u8; L] = kani::any();
            let j: usize = kani::any();
            kani::assume(j <= N);
            // equal on the first j blocks
            let mut i = 0;
            while i < L {
                if i < j * MB {
                    kani::assume(x1[i] == x2[i]);
                }
                i += 1;
            }
            let c = Uf::<$bs, $par>::with_key(kani::any());
            let mut o1 = x1;
            let mut o2 = x2;
            let mut m1 = $ty::$t2::inner_iv_init(c.clone(), blk::<$ivbs>(&iv));
            let mut m2 = $ty::$t2::inner_iv_init(c.clone(), blk::<$ivbs>(&iv));
            do_blocks!($dir, m1, blocks_mut::<$mbs>(&mut o1));
            do_blocks!($dir, m2, blocks_mut::<$mbs>(&mut o2));
            let mut i = 0;
            while i < L {
                if i < j * MB {
                    assert!(o1[i] == o2[i], "an output block depends on input that comes after it");
                }
                i += 1;
            }
            kani::cover!(j == N - 1);
            kani::cover!(j == 1);
        }
    };
}

fn mk_ofb_b2(key: [u8; 2], iv: &[u8; 2]) -> ofb::Ofb<UfE<U2, U2>> { ofb::Ofb::new(&key.into(), blk::<U2>(iv)) }
fn mk_ctr32be_b4(key: [u8; 2], iv: &[u8; 4]) -> ctr::Ctr32BE<UfE<U4, U2>> { ctr::Ctr32BE::new(&key.into(), blk::<U4>(iv)) }
fn mk_ctr32le_b4(key: [u8; 2], iv: &[u8; 4]) -> ctr::Ctr32LE<UfE<U4, U1>> { ctr::Ctr32LE::new(&key.into(), blk::<U4>(iv)) }
fn mk_ctr64be_b8(key: [u8; 2], iv: &[u8; 8]) -> ctr::Ctr64BE<UfE<U8, U1>> { ctr::Ctr64BE::new(&key.into(), blk::<U8>(iv)) }
fn mk_ctr64le_b8(key: [u8; 2], iv: &[u8; 8]) -> ctr::Ctr64LE<UfE<U8, U2>> { ctr::Ctr64LE::new(&key.into(), blk::<U8>(iv)) }
fn mk_ctr128be_b16(key: [u8; 2], iv: &[u8; 16]) -> ctr::Ctr128BE<UfE<U16, U2>> { ctr::Ctr128BE::new(&key.into(), blk::<U16>(iv)) }
fn mk_ctr128le_b16(key: [u8; 2], iv: &[u8; 16]) -> ctr::Ctr128LE<UfE<U16, U1>> { ctr::Ctr128LE::new(&key.into(), blk::<U16>(iv)) }
fn mk_belt(key: [u8; 2], iv: &[u8; 16]) -> belt_ctr::BeltCtr<UfE<U16, U2>> { crate::common::belt_alias::<U2>(key, iv) }

// ---- quick -----------------------------------------------------------------------------------
block_prop!(cbc_b2_w3_n4_j1, 48, cbc::Decryptor, 0, U2, 2, U2, 2, U3, 4, 1);
block_prop!(cbc_b2_w2_n4_j0, 48, cbc::Decryptor, 0, U2, 2, U2, 2, U2, 4, 0);
block_prop!(cbc_b2_w2_n4_j3, 48, cbc::Decryptor, 0, U2, 2, U2, 2, U2, 4, 3);
block_prop!(cfb_b2_w3_n4_j1, 48, cfb_mode::Decryptor, 1, U2, 2, U2, 2, U3, 4, 1);
block_prop!(cfb_b2_w2_n4_j0, 48, cfb_mode::Decryptor, 1, U2, 2, U2, 2, U2, 4, 0);
block_prop!(cfb_b2_w2_n4_j2, 48, cfb_mode::Decryptor, 1, U2, 2, U2, 2, U2, 4, 2);
block_prop!(pcbc_b2_w2_n4_j1, 48, pcbc::Decryptor, 2, U2, 2, U2, 2, U2, 4, 1);
block_prop!(ige_b2_w2_n4_j1, 48, ige::Decryptor, 2, U2, 2, U4, 4, U2, 4, 1);
cfb8_prop!(cfb8_b2_l6, 48, U2, 2, 6);
stream_prop!(stream_ofb_b2_l7, 48, mk_ofb_b2, 2, 7);
stream_prop!(stream_ctr32be_b4_l9, 48, mk_ctr32be_b4, 4, 9);
stream_prop!(stream_ctr64le_b8_l17, 64, mk_ctr64le_b8, 8, 17);
stream_prop!(stream_ctr128be_b16_l18, 80, mk_ctr128be_b16, 16, 18);
stream_prop!(stream_belt_l18, 80, mk_belt, 16, 18);
causal_case!(causal_cbc_enc_b2_w2_n4, 48, cbc::Encryptor, enc, U2, 2, U2, 2, U2, 4, U2, 2);
causal_case!(causal_cbc_dec_b2_w3_n4, 48, cbc::Decryptor, dec, U2, 2, U2, 2, U3, 4, U2, 2);
causal_case!(causal_pcbc_dec_b2_w2_n4, 48, pcbc::Decryptor, dec, U2, 2, U2, 2, U2, 4, U2, 2);
causal_case!(causal_ige_dec_b2_w3_n4, 48, ige::Decryptor, dec, U2, 2, U4, 4, U3, 4, U2, 2);
causal_case!(causal_cfb_dec_b2_w3_n4, 48, cfb_mode::Decryptor, dec, U2, 2, U2, 2, U3, 4, U2, 2);
causal_case!(causal_cfb8_dec_b2_n4, 48, cfb8::Decryptor, dec, U2, 2, U2, 2, U1, 4, U1, 1);

// ---- thorough --------------------------------------------------------------------------------
block_prop!(t_cbc_b4_w2_n4_j2, 64, cbc::Decryptor, 0, U4, 4, U4, 4, U2, 4, 2);
block_prop!(t_cbc_b1_w4_n5_j2, 48, cbc::Decryptor, 0, U1, 1, U1, 1, U4, 5, 2);
block_prop!(t_cfb_b4_w2_n4_j1, 64, cfb_mode::Decryptor, 1, U4, 4, U4, 4, U2, 4, 1);
block_prop!(t_cfb_b2_w3_n4_j3, 48, cfb_mode::Decryptor, 1, U2, 2, U2, 2, U3, 4, 3);
block_prop!(t_cfb_b1_w4_n5_j2, 48, cfb_mode::Decryptor, 1, U1, 1, U1, 1, U4, 5, 2);
block_prop!(t_pcbc_b2_w3_n4_j0, 48, pcbc::Decryptor, 2, U2, 2, U2, 2, U3, 4, 0);
block_prop!(t_pcbc_b4_w2_n4_j2, 64, pcbc::Decryptor, 2, U4, 4, U4, 4, U2, 4, 2);
block_prop!(t_ige_b2_w3_n4_j0, 48, ige::Decryptor, 2, U2, 2, U4, 4, U3, 4, 0);
block_prop!(t_ige_b4_w2_n4_j2, 64, ige::Decryptor, 2, U4, 4, U8, 8, U2, 4, 2);
cfb8_prop!(t_cfb8_b3_l8, 48, U3, 3, 8);
cfb8_prop!(t_cfb8_b1_l4, 48, U1, 1, 4);
stream_prop!(t_stream_ctr32le_b4_l9, 48, mk_ctr32le_b4, 4, 9);
stream_prop!(t_stream_ctr64be_b8_l17, 64, mk_ctr64be_b8, 8, 17);
stream_prop!(t_stream_ctr128le_b16_l33, 100, mk_ctr128le_b16, 16, 33);
causal_case!(t_causal_pcbc_enc_b2_w2_n4, 48, pcbc::Encryptor, enc, U2, 2, U2, 2, U2, 4, U2, 2);
causal_case!(t_causal_ige_enc_b2_w2_n4, 48, ige::Encryptor, enc, U2, 2, U4, 4, U2, 4, U2, 2);
causal_case!(t_causal_cfb_enc_b2_w2_n4, 48, cfb_mode::Encryptor, enc, U2, 2, U2, 2, U2, 4, U2, 2);
causal_case!(t_causal_cfb8_enc_b3_n5, 48, cfb8::Encryptor, enc, U3, 3, U3, 3, U1, 5, U1, 1);
causal_case!(t_causal_cbc_dec_b2_w2_n5, 48, cbc::Decryptor, dec, U2, 2, U2, 2, U2, 5, U2, 2);
causal_case!(t_causal_cfb_dec_b2_w2_n5, 48, cfb_mode::Decryptor, dec, U2, 2, U2, 2, U2, 5, U2, 2);
causal_case!(t_causal_ofb_b2_w2_n4, 48, ofb::OfbCore, enc, U2, 2, U2, 2, U2, 4, U2, 2);
