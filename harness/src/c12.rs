//! C12: in-place and buffer-to-buffer operation give identical results, whatever the output
//! buffer contained beforehand, and leave the same chaining state.
use crate::prelude::*;
use cipher::block_padding::Pkcs7;
use cipher::inout::InOutBuf;

/// Block API: `*_blocks` in place vs `*_blocks_b2b` into a dirty buffer vs per-block
/// `*_block_b2b` / `*_block_inout` into another dirty buffer.
macro_rules! blocks_case {
    ($name:ident, $unw:expr, $ty:ident :: $t2:ident, $dir:ident, $bs:ty, $b:expr, $ivbs:ty, $ivlen:expr, $par:ty, $n:expr, $mbs:ty, $mb:expr) => {
        #[kani::proof]
        #[kani::unwind($unw)]
        pub fn $name() {
            const MB: usize = $mb;
            const N: usize = $n;
            const L: usize = MB * N;
            let key: [u8; 2] = kani::any();
            let iv: [u8; $ivlen] = kani::any();
            let input: [u8; L] = kani::any();
            let c = Uf::<$bs, $par>::with_key(key);
            // in place
            let mut a = input;
            let mut m1 = $ty::$t2::inner_iv_init(c.clone(), blk::<$ivbs>(&iv));
            do_blocks!($dir, m1, blocks_mut::<$mbs>(&mut a));
            // b2b, dirty output
            let mut o2: [u8; L] = kani::any();
            let mut m2 = $ty::$t2::inner_iv_init(c.clone(), blk::<$ivbs>(&iv));
            assert!(do_blocks_b2b!($dir, m2, blocks::<$mbs>(&input), blocks_mut::<$mbs>(&mut o2)).is_ok());
            // per block: first block via *_block_b2b, the others via *_block_inout on (in, dirty out)
            let mut o3: [u8; L] = kani::any();
            let mut m3 = $ty::$t2::inner_iv_init(c.clone(), blk::<$ivbs>(&iv));
            {
                let ib = blocks::<$mbs>(&input);
                let ob = blocks_mut::<$mbs>(&mut o3);
                let mut i = 0;
                while i < N {
                    if i == 0 {
                        do_block_b2b!($dir, m3, &ib[i], &mut ob[i]);
                    } else {
                        do_block_inout!($dir, m3, (&ib[i], &mut ob[i]).into());
                    }
                    i += 1;
                }
            }
            // per block, in place (the `*_block(&mut Block)` entry point)
            let mut a4 = input;
            let mut m4 = $ty::$t2::inner_iv_init(c.clone(), blk::<$ivbs>(&iv));
            for blk in blocks_mut::<$mbs>(&mut a4).iter_mut() {
                do_block!($dir, m4, blk);
            }
            let mut i = 0;
            while i < L {
                assert!(a[i] == o2[i], "b2b output differs from in-place output");
                assert!(a[i] == o3[i], "per-block b2b/inout output differs from in-place output");
                assert!(a[i] == a4[i], "per-block in-place output differs from multi-block in-place output");
                i += 1;
            }
            let (s1, s2, s3, s4) = (m1.iv_state(), m2.iv_state(), m3.iv_state(), m4.iv_state());
            let mut j = 0;
            while j < $ivlen {
                assert!(s1[j] == s2[j] && s1[j] == s3[j] && s1[j] == s4[j], "chaining state differs between in-place and b2b");
                j += 1;
            }
            kani::cover!(true);
        }
    };
}

/// One-shot AsyncStreamCipher: encrypt / decrypt vs *_b2b vs *_inout, with a partial tail.
macro_rules! oneshot_case {
    ($name:ident, $unw:expr, $krate:ident, $ty:ident, $dir:ident, $io:ident, $bs:ty, $b:expr, $par:ty, $l:expr) => {
        #[kani::proof]
        #[kani::unwind($unw)]
        pub fn $name() {
            const B: usize = $b;
            const L: usize = $l;
            let iv: [u8; B] = kani::any();
            let input: [u8; L] = kani::any();
            let c = UfE::<$bs, $par>::with_key(kani::any());
            let mut a = input;
            do_oneshot!($dir, $krate::$ty::inner_iv_init(c.clone(), blk::<$bs>(&iv)), &mut a[..]);
            let mut o2: [u8; L] = kani::any();
            assert!(do_oneshot_b2b!($dir, $krate::$ty::inner_iv_init(c.clone(), blk::<$bs>(&iv)), &input[..], &mut o2[..]).is_ok());
            let mut o3: [u8; L] = kani::any();
            $krate::$ty::inner_iv_init(c.clone(), blk::<$bs>(&iv)).$io(InOutBuf::new(&input[..], &mut o3[..]).unwrap());
            let mut i = 0;
            while i < L {
                assert!(a[i] == o2[i] && a[i] == o3[i], "b2b / inout output differs from in-place output");
                i += 1;
            }
            kani::cover!(true);
        }
    };
}

/// Byte-level stream ciphers: apply_keystream vs apply_keystream_b2b vs apply_keystream_inout,
/// two calls each (so the buffered-block path is used in both forms), position equal afterwards.
macro_rules! stream_case {
    ($name:ident, $unw:expr, $mk:expr, $bs:ty, $b:expr, $par:ty, $l1:expr, $l2:expr) => {
        #[kani::proof]
        #[kani::unwind($unw)]
        pub fn $name() {
            const B: usize = $b;
            const L1: usize = $l1;
            const L2: usize = $l2;
            let key: [u8; 2] = kani::any();
            let iv: [u8; B] = kani::any();
            let input: [u8; L1 + L2] = kani::any();
            let mut a = input;
            let mut s1 = $mk(key, &iv);
            s1.apply_keystream(&mut a[..L1]);
            s1.apply_keystream(&mut a[L1..]);
            let mut o2: [u8; L1 + L2] = kani::any();
            let mut s2 = $mk(key, &iv);
            s2.apply_keystream_b2b(&input[..L1], &mut o2[..L1]).unwrap();
            s2.try_apply_keystream_inout(InOutBuf::new(&input[L1..], &mut o2[L1..]).unwrap()).unwrap();
            let mut i = 0;
            while i < L1 + L2 {
                assert!(a[i] == o2[i], "b2b output differs from in-place output");
                i += 1;
            }
            kani::cover!(true);
        }
    };
}

/// CTS: encrypt / decrypt vs *_b2b, SYMBOLIC length in [b, M].
macro_rules! cts_case {
    ($name:ident, $unw:expr, $ty:ident, $dir:ident, $bs:ty, $b:expr, $par:ty, $m:expr $(, $lo:expr)?) => {
        #[kani::proof]
        #[kani::unwind($unw)]
        pub fn $name() {
            use cts::{Decrypt, Encrypt};
            const B: usize = $b;
            const M: usize = $m;
            #[allow(unused_mut, unused_assignments)]
            let mut lo: usize = B;
            $( lo = $lo; )?
            let key: [u8; 2] = kani::any();
            let iv: [u8; B] = kani::any();
            let input: [u8; M] = kani::any();
            let dirty: [u8; M] = kani::any();
            let len: usize = kani::any();
            kani::assume(len >= lo && len <= M);
            let mut a = input;
            let mut o = dirty;
            split_on!(len, lo, M, l => {
                let ra = do_oneshot!($dir, crate::common::mk::$ty(Uf::<$bs, $par>::with_key(key), &iv), &mut a[..l]);
                let rb = do_oneshot_b2b!($dir, crate::common::mk::$ty(Uf::<$bs, $par>::with_key(key), &iv), &input[..l], &mut o[..l]);
                assert!(ra.is_ok() && rb.is_ok());
            });
            let mut i = 0;
            while i < M {
                if i < len {
                    assert!(a[i] == o[i], "CTS b2b output differs from in-place output");
                } else {
                    assert!(a[i] == input[i] && o[i] == dirty[i], "bytes beyond the message modified");
                }
                i += 1;
            }
            kani::cover!(len == lo);
            kani::cover!(len == M);
        }
    };
}

/// Padded forms (Pkcs7): encrypt_padded (in place) vs encrypt_padded_b2b; decrypt_padded vs _b2b.
macro_rules! padded_case {
    ($name:ident, $unw:expr, $krate:ident, $bs:ty, $b:expr, $ivbs:ty, $ivlen:expr, $par:ty, $l:expr) => {
        #[kani::proof]
        #[kani::unwind($unw)]
        pub fn $name() {
            const B: usize = $b;
            const L: usize = $l;
            const P: usize = B * (L / B + 1);
            let key: [u8; 2] = kani::any();
            let iv: [u8; $ivlen] = kani::any();
            let msg: [u8; L] = kani::any();
            let c = Uf::<$bs, $par>::with_key(key);
            let mut a: [u8; P] = kani::any();
            a[..L].copy_from_slice(&msg);
            let na = $krate::Encryptor::inner_iv_init(c.clone(), blk::<$ivbs>(&iv)).encrypt_padded::<Pkcs7>(&mut a, L).unwrap().len();
            let mut o: [u8; P] = kani::any();
            let nb = $krate::Encryptor::inner_iv_init(c.clone(), blk::<$ivbs>(&iv)).encrypt_padded_b2b::<Pkcs7>(&msg, &mut o).unwrap().len();
            assert!(na == P && nb == P, "padded ciphertext length");
            let mut i = 0;
            while i < P {
                assert!(a[i] == o[i], "padded b2b output differs from in-place output");
                i += 1;
            }
            // decrypt both ways
            let mut d1 = a;
            let mut d2: [u8; P] = kani::any();
            let r1 = $krate::Decryptor::inner_iv_init(c.clone(), blk::<$ivbs>(&iv)).decrypt_padded::<Pkcs7>(&mut d1).unwrap().len();
            let r2 = $krate::Decryptor::inner_iv_init(c.clone(), blk::<$ivbs>(&iv)).decrypt_padded_b2b::<Pkcs7>(&a, &mut d2).unwrap().len();
            assert!(r1 == L && r2 == L, "unpadded length");
            let mut i = 0;
            while i < L {
                assert!(d1[i] == msg[i] && d2[i] == msg[i], "padded round trip");
                i += 1;
            }
            kani::cover!(true);
        }
    };
}

fn mk_ofb_b2(key: [u8; 2], iv: &[u8; 2]) -> ofb::Ofb<UfE<U2, U2>> { ofb::Ofb::new(&key.into(), blk::<U2>(iv)) }
fn mk_ofb_b4(key: [u8; 2], iv: &[u8; 4]) -> ofb::Ofb<UfE<U4, U1>> { ofb::Ofb::new(&key.into(), blk::<U4>(iv)) }
fn mk_ctr32be_b4(key: [u8; 2], iv: &[u8; 4]) -> ctr::Ctr32BE<UfE<U4, U2>> { ctr::Ctr32BE::new(&key.into(), blk::<U4>(iv)) }
fn mk_ctr32le_b4(key: [u8; 2], iv: &[u8; 4]) -> ctr::Ctr32LE<UfE<U4, U1>> { ctr::Ctr32LE::new(&key.into(), blk::<U4>(iv)) }
fn mk_ctr64be_b8(key: [u8; 2], iv: &[u8; 8]) -> ctr::Ctr64BE<UfE<U8, U1>> { ctr::Ctr64BE::new(&key.into(), blk::<U8>(iv)) }
fn mk_ctr64le_b8(key: [u8; 2], iv: &[u8; 8]) -> ctr::Ctr64LE<UfE<U8, U2>> { ctr::Ctr64LE::new(&key.into(), blk::<U8>(iv)) }
fn mk_ctr128be_b16(key: [u8; 2], iv: &[u8; 16]) -> ctr::Ctr128BE<UfE<U16, U2>> { ctr::Ctr128BE::new(&key.into(), blk::<U16>(iv)) }
fn mk_ctr128le_b16(key: [u8; 2], iv: &[u8; 16]) -> ctr::Ctr128LE<UfE<U16, U1>> { ctr::Ctr128LE::new(&key.into(), blk::<U16>(iv)) }
fn mk_belt(key: [u8; 2], iv: &[u8; 16]) -> belt_ctr::BeltCtr<UfE<U16, U2>> { crate::common::belt_alias::<U2>(key, iv) }

// ---- quick -----------------------------------------------------------------------------------
blocks_case!(cbc_enc_b2_w2_n3, 48, cbc::Encryptor, enc, U2, 2, U2, 2, U2, 3, U2, 2);
blocks_case!(cbc_dec_b2_w2_n3, 48, cbc::Decryptor, dec, U2, 2, U2, 2, U2, 3, U2, 2);
blocks_case!(pcbc_enc_b2_w2_n3, 48, pcbc::Encryptor, enc, U2, 2, U2, 2, U2, 3, U2, 2);
blocks_case!(pcbc_dec_b2_w2_n3, 48, pcbc::Decryptor, dec, U2, 2, U2, 2, U2, 3, U2, 2);
blocks_case!(ige_enc_b2_w2_n3, 48, ige::Encryptor, enc, U2, 2, U4, 4, U2, 3, U2, 2);
blocks_case!(ige_dec_b2_w2_n3, 48, ige::Decryptor, dec, U2, 2, U4, 4, U2, 3, U2, 2);
blocks_case!(cfb_enc_b2_w2_n3, 48, cfb_mode::Encryptor, enc, U2, 2, U2, 2, U2, 3, U2, 2);
blocks_case!(cfb_dec_b2_w2_n3, 48, cfb_mode::Decryptor, dec, U2, 2, U2, 2, U2, 3, U2, 2);
blocks_case!(cfb8_enc_b2_n3, 48, cfb8::Encryptor, enc, U2, 2, U2, 2, U1, 3, U1, 1);
blocks_case!(cfb8_dec_b2_n3, 48, cfb8::Decryptor, dec, U2, 2, U2, 2, U1, 3, U1, 1);
blocks_case!(ofb_enc_b2_w2_n3, 48, ofb::OfbCore, enc, U2, 2, U2, 2, U2, 3, U2, 2);
blocks_case!(ofb_dec_b2_w2_n3, 48, ofb::OfbCore, dec, U2, 2, U2, 2, U2, 3, U2, 2);
oneshot_case!(cfb_enc_b2_w2_l7, 48, cfb_mode, Encryptor, enc, encrypt_inout, U2, 2, U2, 7);
oneshot_case!(cfb_enc_b2_w2_l6, 48, cfb_mode, Encryptor, enc, encrypt_inout, U2, 2, U2, 6);
oneshot_case!(cfb_dec_b2_w2_l6, 48, cfb_mode, Decryptor, dec, decrypt_inout, U2, 2, U2, 6);
oneshot_case!(cfb_enc_b2_w1_l2, 48, cfb_mode, Encryptor, enc, encrypt_inout, U2, 2, U1, 2);
oneshot_case!(cfb_dec_b2_w2_l7, 48, cfb_mode, Decryptor, dec, decrypt_inout, U2, 2, U2, 7);
oneshot_case!(cfb8_enc_b2_l5, 48, cfb8, Encryptor, enc, encrypt_inout, U2, 2, U1, 5);
oneshot_case!(cfb8_dec_b2_l5, 48, cfb8, Decryptor, dec, decrypt_inout, U2, 2, U1, 5);
stream_case!(ofb_b2_w2_l3_4, 48, mk_ofb_b2, U2, 2, U2, 3, 4);
stream_case!(ctr32be_b4_w2_l5_8, 48, mk_ctr32be_b4, U4, 4, U2, 5, 8);
stream_case!(ctr64le_b8_w2_l3_14, 64, mk_ctr64le_b8, U8, 8, U2, 3, 14);
stream_case!(ctr128be_b16_w2_l1_32, 100, mk_ctr128be_b16, U16, 16, U2, 1, 32);
stream_case!(belt_w2_l17_16, 100, mk_belt, U16, 16, U2, 17, 16);
cts_case!(cts_cbc_cs1_dec_b1_w2_l8_from6, 48, CbcCs1, dec, U1, 1, U2, 8, 6);
cts_case!(cts_cbc_cs3_dec_b1_w2_l8_from6, 48, CbcCs3, dec, U1, 1, U2, 8, 6);
cts_case!(cts_ecb_cs1_enc_b1_w2_l8_from6, 48, EcbCs1, enc, U1, 1, U2, 8, 6);
cts_case!(cts_cbc_cs1_enc_b2_w2_l7, 48, CbcCs1, enc, U2, 2, U2, 7);
cts_case!(cts_cbc_cs2_dec_b2_w2_l7, 48, CbcCs2, dec, U2, 2, U2, 7);
cts_case!(cts_cbc_cs3_enc_b2_w2_l7, 48, CbcCs3, enc, U2, 2, U2, 7);
cts_case!(cts_ecb_cs1_dec_b2_w2_l7, 48, EcbCs1, dec, U2, 2, U2, 7);
cts_case!(cts_ecb_cs2_enc_b2_w2_l7, 48, EcbCs2, enc, U2, 2, U2, 7);
cts_case!(cts_ecb_cs3_dec_b2_w2_l7, 48, EcbCs3, dec, U2, 2, U2, 7);
padded_case!(pad_cbc_b4_w2_l5, 64, cbc, U4, 4, U4, 4, U2, 5);
padded_case!(pad_pcbc_b2_w2_l4, 64, pcbc, U2, 2, U2, 2, U2, 4);
padded_case!(pad_ige_b2_w1_l3, 64, ige, U2, 2, U4, 4, U1, 3);

// ---- thorough --------------------------------------------------------------------------------
blocks_case!(t_cbc_enc_b4_w3_n4, 64, cbc::Encryptor, enc, U4, 4, U4, 4, U3, 4, U4, 4);
blocks_case!(t_cbc_dec_b4_w3_n4, 64, cbc::Decryptor, dec, U4, 4, U4, 4, U3, 4, U4, 4);
blocks_case!(t_pcbc_enc_b3_w2_n4, 64, pcbc::Encryptor, enc, U3, 3, U3, 3, U2, 4, U3, 3);
blocks_case!(t_pcbc_dec_b4_w3_n4, 64, pcbc::Decryptor, dec, U4, 4, U4, 4, U3, 4, U4, 4);
blocks_case!(t_ige_enc_b4_w3_n4, 64, ige::Encryptor, enc, U4, 4, U8, 8, U3, 4, U4, 4);
blocks_case!(t_ige_dec_b3_w2_n4, 64, ige::Decryptor, dec, U3, 3, U6, 6, U2, 4, U3, 3);
blocks_case!(t_cfb_enc_b4_w3_n4, 64, cfb_mode::Encryptor, enc, U4, 4, U4, 4, U3, 4, U4, 4);
blocks_case!(t_cfb_dec_b4_w3_n4, 64, cfb_mode::Decryptor, dec, U4, 4, U4, 4, U3, 4, U4, 4);
blocks_case!(t_cfb_dec_b1_w4_n5, 48, cfb_mode::Decryptor, dec, U1, 1, U1, 1, U4, 5, U1, 1);
blocks_case!(t_cfb8_enc_b4_n5, 48, cfb8::Encryptor, enc, U4, 4, U4, 4, U1, 5, U1, 1);
blocks_case!(t_cfb8_dec_b3_n5, 48, cfb8::Decryptor, dec, U3, 3, U3, 3, U1, 5, U1, 1);
blocks_case!(t_ofb_enc_b4_w3_n4, 64, ofb::OfbCore, enc, U4, 4, U4, 4, U3, 4, U4, 4);
oneshot_case!(t_cfb_enc_b4_w3_l14, 64, cfb_mode, Encryptor, enc, encrypt_inout, U4, 4, U3, 14);
oneshot_case!(t_cfb_dec_b4_w3_l18, 64, cfb_mode, Decryptor, dec, decrypt_inout, U4, 4, U3, 18);
oneshot_case!(t_cfb8_enc_b4_l9, 48, cfb8, Encryptor, enc, encrypt_inout, U4, 4, U1, 9);
oneshot_case!(t_cfb8_dec_b4_l9, 48, cfb8, Decryptor, dec, decrypt_inout, U4, 4, U1, 9);
stream_case!(t_ofb_b4_w1_l5_8, 48, mk_ofb_b4, U4, 4, U1, 5, 8);
stream_case!(t_ctr32le_b4_w1_l4_9, 48, mk_ctr32le_b4, U4, 4, U1, 4, 9);
stream_case!(t_ctr64be_b8_w1_l9_8, 64, mk_ctr64be_b8, U8, 8, U1, 9, 8);
stream_case!(t_ctr128le_b16_w1_l15_18, 100, mk_ctr128le_b16, U16, 16, U1, 15, 18);
cts_case!(t_cts_cbc_cs1_dec_b2_w2_l9, 48, CbcCs1, dec, U2, 2, U2, 9);
cts_case!(t_cts_cbc_cs2_enc_b2_w2_l9, 48, CbcCs2, enc, U2, 2, U2, 9);
cts_case!(t_cts_cbc_cs3_dec_b2_w2_l9, 48, CbcCs3, dec, U2, 2, U2, 9);
cts_case!(t_cts_ecb_cs1_enc_b2_w2_l9, 48, EcbCs1, enc, U2, 2, U2, 9);
cts_case!(t_cts_ecb_cs2_dec_b2_w2_l9, 48, EcbCs2, dec, U2, 2, U2, 9);
cts_case!(t_cts_ecb_cs3_enc_b2_w2_l9, 48, EcbCs3, enc, U2, 2, U2, 9);
cts_case!(t_cts_cbc_cs3_enc_b4_w3_l13, 64, CbcCs3, enc, U4, 4, U3, 13);
cts_case!(t_cts_ecb_cs2_dec_b4_w3_l13, 64, EcbCs2, dec, U4, 4, U3, 13);
padded_case!(t_pad_cbc_b2_w2_l0, 64, cbc, U2, 2, U2, 2, U2, 0);
padded_case!(t_pad_cbc_b4_w3_l12, 64, cbc, U4, 4, U4, 4, U3, 12);
padded_case!(t_pad_pcbc_b4_w3_l9, 64, pcbc, U4, 4, U4, 4, U3, 9);
padded_case!(t_pad_ige_b4_w2_l8, 64, ige, U4, 4, U8, 8, U2, 8);
