//! C09: the exported IV state resumes the stream in a fresh instance and equals the mode's
//! public chaining value (so encryptor and decryptor states agree on corresponding data).
use crate::prelude::*;

pub const K_CBC: u8 = 0; // last ciphertext block (CBC, CFB)
pub const K_PCBC: u8 = 1; // P xor C of the last block
pub const K_IGE: u8 = 2; // C_k || P_k
pub const K_CFB8: u8 = 3; // last b ciphertext bytes (shift register)
pub const K_OFB: u8 = 4; // last keystream block

/// Public chaining value after k (mode-)blocks, from public data only.
/// pt / ct are the plaintext and ciphertext streams; `mb` = the mode's block size in bytes.
fn chain_value(kind: u8, b: usize, mb: usize, iv: &[u8], pt: &[u8], ct: &[u8], k: usize) -> [u8; 2 * MAXB] {
    let mut r = [0u8; 2 * MAXB];
    let ivlen = if kind == K_IGE { 2 * b } else { b };
    let mut j = 0;
    while j < ivlen {
        r[j] = iv[j];
        j += 1;
    }
    if k == 0 {
        return r;
    }
    let o = (k - 1) * mb;
    let mut j = 0;
    if kind == K_CBC {
        while j < b {
            r[j] = ct[o + j];
            j += 1;
        }
    } else if kind == K_PCBC || kind == K_OFB {
        while j < b {
            r[j] = pt[o + j] ^ ct[o + j];
            j += 1;
        }
    } else if kind == K_IGE {
        while j < b {
            r[j] = ct[o + j];
            r[b + j] = pt[o + j];
            j += 1;
        }
    } else {
        // CFB-8: bytes k .. k+b of (IV || ciphertext)
        while j < b {
            let idx = k + j;
            r[j] = if idx < b { iv[idx] } else { ct[idx - b] };
            j += 1;
        }
    }
    r
}

macro_rules! resume_case {
    ($name:ident, $unw:expr, $ty:ident :: $t2:ident, $dir:ident, $is_enc:expr, $kind:expr, $bs:ty, $b:expr, $ivbs:ty, $ivlen:expr, $par:ty, $n:expr, $mbs:ty, $mb:expr $(, $b2b:expr)?) => {
        #[kani::proof]
        #[kani::unwind($unw)]
        pub fn $name() {
            const B: usize = $b;
            const MB: usize = $mb;
            const N: usize = $n;
            #[allow(unused_mut, unused_assignments)]
            let mut first_piece_b2b = false;
            $( first_piece_b2b = $b2b; )?
            const L: usize = MB * N;
            let key: [u8; 2] = kani::any();
            let iv: [u8; $ivlen] = kani::any();
            let input: [u8; L] = kani::any();
            let c = Uf::<$bs, $par>::with_key(key);
            // uninterrupted run
            let mut whole = input;
            let mut m0 = $ty::$t2::inner_iv_init(c.clone(), blk::<$ivbs>(&iv));
            do_blocks!($dir, m0, blocks_mut::<$mbs>(&mut whole));
            let st_whole = m0.iv_state();
            let (pt, ct) = if $is_enc { (&input, &whole) } else { (&whole, &input) };
            let want_end = chain_value($kind, B, MB, &iv, &pt[..], &ct[..], N);
            let mut j = 0;
            while j < $ivlen {
                assert!(st_whole[j] == want_end[j], "final exported state is not the public chaining value");
                j += 1;
            }
            // interrupted at a symbolic block boundary k (case split; objects live inside the branch)
            let k: usize = kani::any();
            kani::assume(k <= N);
            let mut buf = input;
            let mut st2 = [0u8; $ivlen];
            split_on!(k, 0, N, k_ => {
                let mut m1 = $ty::$t2::inner_iv_init(c.clone(), blk::<$ivbs>(&iv));
                let (p1, p2) = blocks_mut::<$mbs>(&mut buf).split_at_mut(k_);
                if first_piece_b2b {
                    // first piece buffer-to-buffer into a dirty buffer (state must not depend on it)
                    let mut o1: [u8; L] = kani::any();
                    assert!(do_blocks_b2b!($dir, m1, &blocks::<$mbs>(&input)[..k_], &mut blocks_mut::<$mbs>(&mut o1)[..k_]).is_ok());
                    p1.clone_from_slice(&blocks::<$mbs>(&o1)[..k_]);
                } else {
                    do_blocks!($dir, m1, p1);
                }
                let st = m1.iv_state();
                let want_k = chain_value($kind, B, MB, &iv, &pt[..], &ct[..], k_);
                let mut j = 0;
                while j < $ivlen {
                    assert!(st[j] == want_k[j], "exported state is not the public chaining value");
                    j += 1;
                }
                let mut m2 = $ty::$t2::inner_iv_init(c.clone(), &st);
                do_blocks!($dir, m2, p2);
                st2.copy_from_slice(&m2.iv_state());
            });
            let mut i = 0;
            while i < L {
                assert!(buf[i] == whole[i], "fresh instance from the exported state does not continue the stream");
                i += 1;
            }
            let mut j = 0;
            while j < $ivlen {
                assert!(st2[j] == st_whole[j]);
                j += 1;
            }
            kani::cover!(k == 1);
            kani::cover!(k == N);
            kani::cover!(k == 0);
        }
    };
}

/// CTR flavours: export at a symbolic block position; value = next counter block; fresh instance continues.
macro_rules! ctr_resume {
    ($name:ident, $unw:expr, $flavor:ident, $spec:expr, $ct:ty, $bs:ty, $b:expr, $par:ty, $n:expr) => {
        #[kani::proof]
        #[kani::unwind($unw)]
        pub fn $name() {
            const B: usize = $b;
            const N: usize = $n;
            let iv: [u8; B] = kani::any();
            let pos: $ct = kani::any();
            kani::assume(pos <= <$ct>::MAX - 2 * N as $ct);
            let c = UfE::<$bs, $par>::with_key(kani::any());
            let mut core = ctr::CtrCore::<_, ctr::flavors::$flavor>::inner_iv_init(c.clone(), blk::<$bs>(&iv));
            core.set_block_pos(pos as _);
            let st = core.iv_state();
            let want = spec::ctr_layout($spec, &iv, B, pos as u128);
            let mut j = 0;
            while j < B {
                assert!(st[j] == want[j], "exported CTR state is not the next counter block");
                j += 1;
            }
            // uninterrupted: ONE call of N blocks
            let data: [u8; N * B] = kani::any();
            let mut a = data;
            core.apply_keystream_blocks(blocks_mut::<$bs>(&mut a));
            let s_end = core.iv_state();
            // interrupted after k blocks (k symbolic, case split): export, fresh instance, the rest
            let k: usize = kani::any();
            kani::assume(k <= N);
            let mut b = data;
            let mut s2 = [0u8; B];
            split_on!(k, 0, N, k_ => {
                let mut c1 = ctr::CtrCore::<_, ctr::flavors::$flavor>::inner_iv_init(c.clone(), blk::<$bs>(&iv));
                c1.set_block_pos(pos as _);
                let (p1, p2) = blocks_mut::<$bs>(&mut b).split_at_mut(k_);
                c1.apply_keystream_blocks(p1);
                let st_k = c1.iv_state();
                let mut fresh = ctr::CtrCore::<_, ctr::flavors::$flavor>::inner_iv_init(c.clone(), &st_k);
                fresh.apply_keystream_blocks(p2);
                s2.copy_from_slice(&fresh.iv_state());
            });
            let mut i = 0;
            while i < N * B {
                assert!(a[i] == b[i], "fresh CTR instance from the exported state does not continue the stream");
                i += 1;
            }
            let mut j = 0;
            while j < B {
                assert!(s_end[j] == s2[j], "final exported state differs between interrupted and uninterrupted run");
                j += 1;
            }
            kani::cover!(k == 1);
            kani::cover!(k == N);
            kani::cover!(true);
        }
    };
}

/// BelT-CTR: iv_state = D(s) so that a fresh instance recomputes E(D(s)) = s.
macro_rules! belt_resume {
    ($name:ident, $unw:expr, $par:ty, $n:expr) => {
        #[kani::proof]
        #[kani::unwind($unw)]
        pub fn $name() {
            const B: usize = 16;
            const N: usize = $n;
            let iv: [u8; B] = kani::any();
            let pos: u128 = kani::any();
            kani::assume(pos <= u128::MAX - 2 * N as u128);
            let c = Uf::<U16, $par>::with_key(kani::any());
            let mut core = belt_ctr::BeltCtrCore::inner_iv_init(c.clone(), blk::<U16>(&iv));
            core.set_block_pos(pos as _);
            let _ = core.iv_state();
            // at position 0 the exported state is the IV itself
            let core0 = belt_ctr::BeltCtrCore::inner_iv_init(c.clone(), blk::<U16>(&iv));
            let st0 = core0.iv_state();
            let mut j = 0;
            while j < B {
                assert!(st0[j] == iv[j], "BelT-CTR state at position 0 is not the IV");
                j += 1;
            }
            let data: [u8; N * B] = kani::any();
            let mut a = data;
            core.apply_keystream_blocks(blocks_mut::<U16>(&mut a));
            let k: usize = kani::any();
            kani::assume(k <= N);
            let mut b = data;
            split_on!(k, 0, N, k_ => {
                let mut c1 = belt_ctr::BeltCtrCore::inner_iv_init(c.clone(), blk::<U16>(&iv));
                c1.set_block_pos(pos as _);
                let (p1, p2) = blocks_mut::<U16>(&mut b).split_at_mut(k_);
                c1.apply_keystream_blocks(p1);
                let st_k = c1.iv_state();
                let mut fresh = belt_ctr::BeltCtrCore::inner_iv_init(c.clone(), &st_k);
                fresh.apply_keystream_blocks(p2);
            });
            let mut i = 0;
            while i < N * B {
                assert!(a[i] == b[i], "fresh BelT-CTR instance from the exported state does not continue the stream");
                i += 1;
            }
            kani::cover!(k == 1);
            kani::cover!(k == N);
            kani::cover!(true);
        }
    };
}

/// Buffered CFB: export (block, pos) at a symbolic BYTE cut, import with from_state, continue.
macro_rules! buf_resume {
    ($name:ident, $unw:expr, $ty:ident, $call:ident, $bs:ty, $b:expr, $l:expr $(, $klo:expr)?) => {
        #[kani::proof]
        #[kani::unwind($unw)]
        pub fn $name() {
            const B: usize = $b;
            const L: usize = $l;
            #[allow(unused_mut, unused_assignments)]
            let mut klo: usize = 0;
            $( klo = $klo; )?
            let c = UfE::<$bs, U1>::with_key(kani::any());
            let iv: [u8; B] = kani::any();
            let msg: [u8; L] = kani::any();
            let mut whole = msg;
            let mut m0 = cfb_mode::$ty::inner_iv_init(c.clone(), blk::<$bs>(&iv));
            m0.$call(&mut whole);
            let k: usize = kani::any();
            kani::assume(k >= klo && k <= L);
            let mut buf = msg;
            let (s0, p0) = m0.get_state();
            split_on!(k, klo, L, k_ => {
                let mut m1 = cfb_mode::$ty::inner_iv_init(c.clone(), blk::<$bs>(&iv));
                let (p1, p2) = buf.split_at_mut(k_);
                m1.$call(p1);
                let (st, pos) = m1.get_state();
                let mut m2 = cfb_mode::$ty::from_state(c.clone(), st, pos);
                m2.$call(p2);
                let (s2, p2s) = m2.get_state();
                assert!(p0 == p2s);
                let mut j = 0;
                while j < B {
                    assert!(s0[j] == s2[j]);
                    j += 1;
                }
            });
            let mut i = 0;
            while i < L {
                assert!(buf[i] == whole[i], "instance restored with from_state does not continue the stream");
                i += 1;
            }
            kani::cover!(k == klo);
            kani::cover!(k == L);
        }
    };
}

// ---- quick ----------------------------------------------------------------------------------
resume_case!(cbc_enc_b2_w2_n3, 48, cbc::Encryptor, enc, true, K_CBC, U2, 2, U2, 2, U2, 3, U2, 2);
resume_case!(cbc_dec_b2_w2_n3, 48, cbc::Decryptor, dec, false, K_CBC, U2, 2, U2, 2, U2, 3, U2, 2);
resume_case!(cbc_enc_b2_w2_n3_b2b, 48, cbc::Encryptor, enc, true, K_CBC, U2, 2, U2, 2, U2, 3, U2, 2, true);
resume_case!(cfb_enc_b2_w2_n3_b2b, 48, cfb_mode::Encryptor, enc, true, K_CBC, U2, 2, U2, 2, U2, 3, U2, 2, true);
resume_case!(pcbc_enc_b2_w2_n3_b2b, 48, pcbc::Encryptor, enc, true, K_PCBC, U2, 2, U2, 2, U2, 3, U2, 2, true);
resume_case!(ige_enc_b2_w2_n3_b2b, 48, ige::Encryptor, enc, true, K_IGE, U2, 2, U4, 4, U2, 3, U2, 2, true);
resume_case!(cfb8_dec_b2_n4_b2b, 48, cfb8::Decryptor, dec, false, K_CFB8, U2, 2, U2, 2, U1, 4, U1, 1, true);
resume_case!(cbc_dec_b2_w2_n3_b2b, 48, cbc::Decryptor, dec, false, K_CBC, U2, 2, U2, 2, U2, 3, U2, 2, true);
resume_case!(cfb_dec_b2_w2_n3_b2b, 48, cfb_mode::Decryptor, dec, false, K_CBC, U2, 2, U2, 2, U2, 3, U2, 2, true);
resume_case!(pcbc_dec_b2_w2_n3_b2b, 48, pcbc::Decryptor, dec, false, K_PCBC, U2, 2, U2, 2, U2, 3, U2, 2, true);
resume_case!(ige_dec_b2_w2_n3_b2b, 48, ige::Decryptor, dec, false, K_IGE, U2, 2, U4, 4, U2, 3, U2, 2, true);
resume_case!(pcbc_enc_b2_w2_n3, 48, pcbc::Encryptor, enc, true, K_PCBC, U2, 2, U2, 2, U2, 3, U2, 2);
resume_case!(pcbc_dec_b2_w2_n3, 48, pcbc::Decryptor, dec, false, K_PCBC, U2, 2, U2, 2, U2, 3, U2, 2);
resume_case!(ige_enc_b2_w2_n3, 48, ige::Encryptor, enc, true, K_IGE, U2, 2, U4, 4, U2, 3, U2, 2);
resume_case!(ige_dec_b2_w2_n3, 48, ige::Decryptor, dec, false, K_IGE, U2, 2, U4, 4, U2, 3, U2, 2);
resume_case!(cfb_enc_b2_w2_n3, 48, cfb_mode::Encryptor, enc, true, K_CBC, U2, 2, U2, 2, U2, 3, U2, 2);
resume_case!(cfb_dec_b2_w2_n3, 48, cfb_mode::Decryptor, dec, false, K_CBC, U2, 2, U2, 2, U2, 3, U2, 2);
resume_case!(cfb8_enc_b2_n4, 48, cfb8::Encryptor, enc, true, K_CFB8, U2, 2, U2, 2, U1, 4, U1, 1);
resume_case!(cfb8_dec_b2_n4, 48, cfb8::Decryptor, dec, false, K_CFB8, U2, 2, U2, 2, U1, 4, U1, 1);
resume_case!(ofb_enc_b2_w2_n3, 48, ofb::OfbCore, enc, true, K_OFB, U2, 2, U2, 2, U2, 3, U2, 2);
ctr_resume!(ctr32be_b8_w2_n3, 64, Ctr32BE, spec::CTR32BE, u32, U8, 8, U2, 3);
ctr_resume!(ctr64le_b8_w2_n3, 64, Ctr64LE, spec::CTR64LE, u64, U8, 8, U2, 3);
ctr_resume!(t_ctr128be_b16_w2_n3, 80, Ctr128BE, spec::CTR128BE, u128, U16, 16, U2, 3);
belt_resume!(belt_w2_n3, 80, U2, 3);
buf_resume!(buf_enc_b2_l5, 48, BufEncryptor, encrypt, U2, 2, 5);
buf_resume!(buf_dec_b2_l5, 48, BufDecryptor, decrypt, U2, 2, 5);
buf_resume!(buf_dec_b1_l10_k8, 48, BufDecryptor, decrypt, U1, 1, 10, 8); // cuts after 8, 9, 10 whole blocks
buf_resume!(t_buf_enc_b1_l10, 48, BufEncryptor, encrypt, U1, 1, 10);
buf_resume!(t_buf_dec_b1_l10, 48, BufDecryptor, decrypt, U1, 1, 10);

// ---- thorough -------------------------------------------------------------------------------
resume_case!(t_cbc_enc_b4_w1_n4, 64, cbc::Encryptor, enc, true, K_CBC, U4, 4, U4, 4, U1, 4, U4, 4);
resume_case!(t_cbc_dec_b4_w3_n4, 64, cbc::Decryptor, dec, false, K_CBC, U4, 4, U4, 4, U3, 4, U4, 4);
resume_case!(t_pcbc_enc_b4_w3_n4, 64, pcbc::Encryptor, enc, true, K_PCBC, U4, 4, U4, 4, U3, 4, U4, 4);
resume_case!(t_pcbc_dec_b3_w2_n4, 64, pcbc::Decryptor, dec, false, K_PCBC, U3, 3, U3, 3, U2, 4, U3, 3);
resume_case!(t_ige_enc_b4_w1_n4, 64, ige::Encryptor, enc, true, K_IGE, U4, 4, U8, 8, U1, 4, U4, 4);
resume_case!(t_ige_dec_b3_w3_n4, 64, ige::Decryptor, dec, false, K_IGE, U3, 3, U6, 6, U3, 4, U3, 3);
resume_case!(t_cfb_enc_b4_w2_n4, 64, cfb_mode::Encryptor, enc, true, K_CBC, U4, 4, U4, 4, U2, 4, U4, 4);
resume_case!(t_cfb_dec_b4_w3_n4, 64, cfb_mode::Decryptor, dec, false, K_CBC, U4, 4, U4, 4, U3, 4, U4, 4);
resume_case!(t_cfb8_enc_b3_n5, 48, cfb8::Encryptor, enc, true, K_CFB8, U3, 3, U3, 3, U1, 5, U1, 1);
resume_case!(t_cfb8_dec_b4_n6, 48, cfb8::Decryptor, dec, false, K_CFB8, U4, 4, U4, 4, U1, 6, U1, 1);
resume_case!(t_cfb8_enc_b1_n3, 48, cfb8::Encryptor, enc, true, K_CFB8, U1, 1, U1, 1, U1, 3, U1, 1);
resume_case!(t_ofb_dec_b4_w3_n4, 64, ofb::OfbCore, dec, false, K_OFB, U4, 4, U4, 4, U3, 4, U4, 4);
ctr_resume!(t_ctr32le_b4_w2_n3, 64, Ctr32LE, spec::CTR32LE, u32, U4, 4, U2, 3);
ctr_resume!(t_ctr32be_b16_w1_n2, 80, Ctr32BE, spec::CTR32BE, u32, U16, 16, U1, 2);
ctr_resume!(t_ctr64be_b16_w2_n3, 80, Ctr64BE, spec::CTR64BE, u64, U16, 16, U2, 3);
ctr_resume!(t_ctr128le_b16_w2_n3, 80, Ctr128LE, spec::CTR128LE, u128, U16, 16, U2, 3);
belt_resume!(t_belt_w1_n2, 80, U1, 2);
belt_resume!(t_belt_w3_n4, 100, U3, 4);
buf_resume!(t_buf_enc_b3_l7, 48, BufEncryptor, encrypt, U3, 3, 7);
buf_resume!(t_buf_dec_b3_l7, 48, BufDecryptor, decrypt, U3, 3, 7);
buf_resume!(t_buf_enc_b4_l9, 48, BufEncryptor, encrypt, U4, 4, 9);
