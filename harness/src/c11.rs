//! C11: a keystream never wraps around silently: exhaustion is an error, not reuse.
//!
//! (1) remaining_blocks exact for every position: c04 / c06 harnesses (listed under "also").
//! (2) near the limit: start r blocks (+ off bytes) before the end, request of SYMBOLIC length:
//!     Ok <=> it ends at or before the limit; on Err buffer and position untouched; a request
//!     ending exactly at the limit succeeds and a following 1-byte request fails.
//! (3) no reuse: i -> counter block is injective on the real block-generation code.
//! kf_*: dedicated harnesses for the known finding (seek into the block after the last one).
use crate::prelude::*;

macro_rules! limit_tail {
    ($mk:expr, $ks:ident, $off:expr, $left:expr, $nlo:expr, $nmax:expr) => {{
        const NMAX_: usize = $nmax;
        const LEFT_: usize = $left;
        const NLO_: usize = $nlo;
        let n: usize = kani::any();
        kani::assume(n >= NLO_ && n <= NMAX_);
        let data: [u8; NMAX_ + 1] = kani::any();
        let mut buf = data;
        let s0 = $mk;
        let pos_before = s0.try_current_pos::<u128>().ok();
        let blk_before = s0.get_core().get_block_pos();
        let fits = n <= LEFT_;
        let mut ok = false;
        let mut ok2 = true;
        let mut pos_after = None;
        let mut blk_same = false;
        // the object is rebuilt inside every branch (an object mutated in one branch would reach
        // the next branch in a merged state)
        split_on!(n, NLO_, NMAX_, n_ => {
            let mut s = $mk;
            ok = s.try_apply_keystream(&mut buf[..n_]).is_ok();
            pos_after = s.try_current_pos::<u128>().ok();
            blk_same = s.get_core().get_block_pos() == blk_before;
            if n_ == LEFT_ {
                // the request ended exactly at the limit: one more byte must be refused
                ok2 = s.try_apply_keystream(&mut buf[NMAX_..]).is_ok();
            }
        });
        assert!(ok == fits, "request accepted iff it ends at or before the keystream limit");
        let mut i = 0;
        while i < NMAX_ + 1 {
            if fits && i < n {
                assert!(buf[i] == data[i] ^ $ks[$off + i], "keystream bytes before the limit");
            } else {
                assert!(buf[i] == data[i], "buffer modified by a rejected request / beyond the request");
            }
            i += 1;
        }
        if fits {
            if let (Some(a), Some(b)) = (pos_before, pos_after) {
                assert!(b == a + n as u128);
            }
            if n == LEFT_ {
                assert!(!ok2, "a request beyond the limit was accepted (keystream would wrap)");
            }
        } else {
            assert!(pos_before == pos_after && blk_same, "position changed by a rejected request");
        }
        kani::cover!(fits && n == LEFT_);
        kani::cover!(!fits);
        kani::cover!(n == NLO_);
    }};
}

/// CTR flavour; start at block (MAX - R) + OFF bytes; VIA_SEEK: reach it by try_seek (u128) else by
/// positioning the core and consuming OFF bytes.
macro_rules! ctr_limit {
    ($name:ident, $unw:expr, $flavor:ident, $spec:expr, $ct:ty, $bs:ty, $b:expr, $par:ty, $r:expr, $off:expr, $via_seek:expr) => {
        #[kani::proof]
        #[kani::unwind($unw)]
        pub fn $name() {
            const B: usize = $b;
            const R: usize = $r;
            const OFF: usize = $off;
            const LEFT: usize = R * B - OFF;
            let iv: [u8; B] = kani::any();
            let c = UfE::<$bs, $par>::with_key(kani::any());
            let first: $ct = <$ct>::MAX - R as $ct;
            let mut ks = [0u8; R * B];
            spec::ctr_ks(c.p(), $spec, &iv, first as u128, &mut ks);
            let mk = || {
                let mut s = StreamCipherCoreWrapper::from_core(ctr::CtrCore::<_, ctr::flavors::$flavor>::inner_iv_init(c.clone(), blk::<$bs>(&iv)));
                if $via_seek {
                    let start: u128 = (first as u128).wrapping_mul(B as u128).wrapping_add(OFF as u128);
                    s.try_seek(start).unwrap();
                    assert!(s.try_current_pos::<u128>().ok() == Some(start));
                } else {
                    let mut core = ctr::CtrCore::<_, ctr::flavors::$flavor>::inner_iv_init(c.clone(), blk::<$bs>(&iv));
                    core.set_block_pos(first as _);
                    s = StreamCipherCoreWrapper::from_core(core);
                    let mut skip = [0u8; OFF];
                    s.try_apply_keystream(&mut skip).unwrap();
                }
                s
            };
            limit_tail!(mk(), ks, OFF, LEFT, if B <= 4 { 0 } else if LEFT > 3 { LEFT - 3 } else { 0 }, if B <= 4 { LEFT + B + 1 } else { LEFT + 3 });
        }
    };
}
macro_rules! belt_limit {
    ($name:ident, $unw:expr, $par:ty, $r:expr, $off:expr) => {
        #[kani::proof]
        #[kani::unwind($unw)]
        pub fn $name() {
            const B: usize = 16;
            const R: usize = $r;
            const OFF: usize = $off;
            const LEFT: usize = R * B - OFF;
            let iv: [u8; B] = kani::any();
            let c = UfE::<U16, $par>::with_key(kani::any());
            let first: u128 = u128::MAX - R as u128;
            let s0 = spec::belt_s0(c.p(), &iv);
            let mut ks = [0u8; R * B];
            spec::belt_ks(c.p(), s0, first, &mut ks);
            let mk = || {
                let mut core = crate::common::belt_core(c.clone(), &iv);
                core.set_block_pos(first as _);
                let mut s = StreamCipherCoreWrapper::from_core(core);
                let mut skip = [0u8; OFF];
                s.try_apply_keystream(&mut skip).unwrap();
                s
            };
            limit_tail!(mk(), ks, OFF, LEFT, if LEFT > 3 { LEFT - 3 } else { 0 }, LEFT + 3);
        }
    };
}

/// Seeking exactly to the end is allowed, reports the end position, and the next byte is refused.
macro_rules! ctr_seek_end {
    ($name:ident, $unw:expr, $alias:ident, $ct:ty, $bs:ty, $b:expr) => {
        #[kani::proof]
        #[kani::unwind($unw)]
        pub fn $name() {
            const B: usize = $b;
            let key: [u8; 2] = kani::any();
            let iv: [u8; B] = kani::any();
            let mut s = ctr::$alias::<UfE<$bs, U1>>::new(&key.into(), blk::<$bs>(&iv));
            let end: u128 = (<$ct>::MAX as u128) * B as u128;
            kani::cover!(true);
            // (whether a seek exactly to the end is accepted is not prescribed; if it is, the position
            // must be the end and no further byte may be produced)
            if s.try_seek(end).is_err() {
                return;
            }
            assert!(s.try_current_pos::<u128>().ok() == Some(end));
            let d: [u8; 2] = kani::any();
            let mut buf = d;
            assert!(s.try_apply_keystream(&mut buf[..0]).is_ok(), "an empty request at the end is fine");
            assert!(s.try_apply_keystream(&mut buf[..1]).is_err(), "a byte beyond the end was produced");
            assert!(s.try_apply_keystream(&mut buf).is_err());
            assert!(buf[0] == d[0] && buf[1] == d[1]);
            assert!(s.try_current_pos::<u128>().ok() == Some(end));
        }
    };
}

/// No reuse: two different block indices below the limit never yield the same counter block
/// (checked on the real block-generation code: set_block_pos + iv_state = F::current_block).
macro_rules! ctr_injective {
    ($name:ident, $unw:expr, $flavor:ident, $ct:ty, $bs:ty, $b:expr) => {
        #[kani::proof]
        #[kani::unwind($unw)]
        pub fn $name() {
            const B: usize = $b;
            let iv: [u8; B] = kani::any();
            let i: $ct = kani::any();
            let j: $ct = kani::any();
            kani::assume(i != j);
            let c = UfE::<$bs, U1>::with_key([0, 0]);
            let mut core = ctr::CtrCore::<_, ctr::flavors::$flavor>::inner_iv_init(c, blk::<$bs>(&iv));
            core.set_block_pos(i as _);
            let bi = core.iv_state();
            core.set_block_pos(j as _);
            let bj = core.iv_state();
            let mut same = true;
            let mut k = 0;
            while k < B {
                same &= bi[k] == bj[k];
                k += 1;
            }
            assert!(!same, "two positions share one counter block");
            kani::cover!(true);
        }
    };
}
/// BelT: s0 + i + 1 is injective in i; observed through the blocks handed to E (oracle table).
#[kani::proof]
#[kani::unwind(64)]
pub fn belt_injective() {
    let iv: [u8; 16] = kani::any();
    let i: u128 = kani::any();
    let j: u128 = kani::any();
    kani::assume(i != j && i < u128::MAX && j < u128::MAX);
    let c = UfE::<U16, U1>::with_key([0, 0]);
    let mut core = belt_ctr::BeltCtrCore::inner_iv_init(c, blk::<U16>(&iv));
    let mut a = [0u8; 16];
    let mut b = [0u8; 16];
    core.set_block_pos(i as _);
    core.write_keystream_block(blk_mut::<U16>(&mut a));
    core.set_block_pos(j as _);
    core.write_keystream_block(blk_mut::<U16>(&mut b));
    // E is a permutation: the two keystream blocks are equal iff the two counter blocks are
    let mut same = true;
    let mut k = 0;
    while k < 16 {
        same &= a[k] == b[k];
        k += 1;
    }
    assert!(!same, "two positions share one counter block");
    kani::cover!(true);
}

/// KNOWN FINDING (DESIGN.md 5.3): seeking INTO the block after the last one (end < p < end + b)
/// is accepted by the wrapper; the next request wraps the counter and reuses keystream block 0.
macro_rules! kf_seek_past_end {
    ($name:ident, $unw:expr, $alias:ident, $ct:ty, $bs:ty, $b:expr, $off:expr) => {
        #[kani::proof]
        #[kani::unwind($unw)]
        pub fn $name() {
            const B: usize = $b;
            let key: [u8; 2] = kani::any();
            let iv: [u8; B] = kani::any();
            let mut s = ctr::$alias::<UfE<$bs, U1>>::new(&key.into(), blk::<$bs>(&iv));
            let end: u128 = (<$ct>::MAX as u128) * B as u128;
            let r = s.try_seek(end + $off as u128);
            if r.is_ok() {
                // if the seek is accepted, at least no data may be produced from there
                let mut buf = [0u8; B + 1];
                assert!(s.try_apply_keystream(&mut buf).is_err(), "keystream wrapped around silently after seeking past the end");
            }
            kani::cover!(true);
        }
    };
}

/// Seeking a whole counter range (or more) beyond the end: either the seek is refused, or the
/// following request is; keystream must never be produced from there.  p = (2^w + K) * b + off.
macro_rules! seek_far_beyond {
    ($name:ident, $unw:expr, $alias:ident, $ct:ty, $bs:ty, $b:expr, $k:expr, $off:expr) => {
        #[kani::proof]
        #[kani::unwind($unw)]
        pub fn $name() {
            const B: usize = $b;
            let key: [u8; 2] = kani::any();
            let iv: [u8; B] = kani::any();
            let mut s = ctr::$alias::<UfE<$bs, U1>>::new(&key.into(), blk::<$bs>(&iv));
            kani::cover!(true);
            let p: u128 = ((<$ct>::MAX as u128) + 1 + $k as u128) * B as u128 + $off as u128;
            if s.try_seek(p).is_ok() {
                let d: [u8; B + 1] = kani::any();
                let mut buf = d;
                assert!(s.try_apply_keystream(&mut buf).is_err(), "keystream produced after a seek far beyond the end (silent wrap)");
            }
        }
    };
}

// ---- quick -----------------------------------------------------------------------------------
ctr_limit!(lim_ctr32le_b4_w1_r2_o1_seek, 64, Ctr32LE, spec::CTR32LE, u32, U4, 4, U1, 2, 1, true);
ctr_limit!(lim_ctr32be_b4_w2_r2_o0_seek, 64, Ctr32BE, spec::CTR32BE, u32, U4, 4, U2, 2, 0, true);
ctr_limit!(lim_ctr64be_b8_w1_r1_o3_core, 64, Ctr64BE, spec::CTR64BE, u64, U8, 8, U1, 1, 3, false);
ctr_limit!(lim_ctr128le_b16_w1_r1_o0_core, 100, Ctr128LE, spec::CTR128LE, u128, U16, 16, U1, 1, 0, false);
belt_limit!(lim_belt_w1_r1_o5, 100, U1, 1, 5);
ctr_seek_end!(end_ctr32be_b4, 64, Ctr32BE, u32, U4, 4);
ctr_seek_end!(end_ctr64le_b8, 64, Ctr64LE, u64, U8, 8);
seek_far_beyond!(far_ctr32be_b16_k0_o0, 100, Ctr32BE, u32, U16, 16, 0, 0);
seek_far_beyond!(far_ctr32le_b4_k5_o3, 64, Ctr32LE, u32, U4, 4, 5, 3);
seek_far_beyond!(far_ctr64be_b8_k1_o0, 64, Ctr64BE, u64, U8, 8, 1, 0);
ctr_injective!(inj_ctr32be_b8, 64, Ctr32BE, u32, U8, 8);
ctr_injective!(inj_ctr32le_b8, 64, Ctr32LE, u32, U8, 8);
ctr_injective!(inj_ctr64be_b16, 64, Ctr64BE, u64, U16, 16);
ctr_injective!(inj_ctr64le_b16, 64, Ctr64LE, u64, U16, 16);
ctr_injective!(inj_ctr128be_b16, 64, Ctr128BE, u128, U16, 16);
ctr_injective!(inj_ctr128le_b16, 64, Ctr128LE, u128, U16, 16);
kf_seek_past_end!(kf_seek_past_end_ctr32be_b4, 64, Ctr32BE, u32, U4, 4, 1);
kf_seek_past_end!(kf_seek_past_end_ctr32le_b16, 100, Ctr32LE, u32, U16, 16, 3);
kf_seek_past_end!(kf_seek_past_end_ctr64be_b8, 64, Ctr64BE, u64, U8, 8, 7);

// ---- thorough --------------------------------------------------------------------------------
ctr_limit!(t_lim_ctr32be_b4_w1_r3_o3_seek, 64, Ctr32BE, spec::CTR32BE, u32, U4, 4, U1, 3, 3, true);
ctr_limit!(t_lim_ctr32le_b8_w2_r2_o7_core, 64, Ctr32LE, spec::CTR32LE, u32, U8, 8, U2, 2, 7, false);
ctr_limit!(t_lim_ctr32be_b16_w1_r1_o15_seek, 100, Ctr32BE, spec::CTR32BE, u32, U16, 16, U1, 1, 15, true);
ctr_limit!(t_lim_ctr64le_b8_w2_r2_o0_seek, 64, Ctr64LE, spec::CTR64LE, u64, U8, 8, U2, 2, 0, true);
ctr_limit!(t_lim_ctr64be_b16_w1_r1_o1_seek, 100, Ctr64BE, spec::CTR64BE, u64, U16, 16, U1, 1, 1, true);
ctr_limit!(t_lim_ctr64le_b8_w1_r3_o5_core, 64, Ctr64LE, spec::CTR64LE, u64, U8, 8, U1, 3, 5, false);
ctr_limit!(t_lim_ctr128be_b16_w2_r2_o9_core, 100, Ctr128BE, spec::CTR128BE, u128, U16, 16, U2, 2, 9, false);
ctr_limit!(t_lim_ctr128le_b16_w1_r2_o16_core, 100, Ctr128LE, spec::CTR128LE, u128, U16, 16, U1, 2, 16, false);
belt_limit!(t_lim_belt_w2_r2_o0, 100, U2, 2, 0);
belt_limit!(t_lim_belt_w1_r2_o17, 100, U1, 2, 17);
ctr_seek_end!(t_end_ctr32le_b16, 100, Ctr32LE, u32, U16, 16);
ctr_seek_end!(t_end_ctr64be_b16, 100, Ctr64BE, u64, U16, 16);
ctr_injective!(t_inj_ctr32be_b4, 64, Ctr32BE, u32, U4, 4);
ctr_injective!(t_inj_ctr32le_b16, 64, Ctr32LE, u32, U16, 16);
ctr_injective!(t_inj_ctr64be_b8, 64, Ctr64BE, u64, U8, 8);
ctr_injective!(t_inj_ctr128le_b32, 80, Ctr128LE, u128, U32, 32);
kf_seek_past_end!(kf_t_seek_past_end_ctr32be_b16, 100, Ctr32BE, u32, U16, 16, 15);
kf_seek_past_end!(kf_t_seek_past_end_ctr64le_b8, 64, Ctr64LE, u64, U8, 8, 1);
