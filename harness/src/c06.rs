//! C06: BelT-CTR: s0 = LE128(E(IV)); keystream block i = E(LE(s0 + i + 1 mod 2^128)).
//! Also serves C10-A / C11-(1) for BelT (position coherence, remaining exact).
use crate::prelude::*;

macro_rules! belt_core_case {
    ($name:ident, $unw:expr, $par:ty, $nb:expr) => {
        #[kani::proof]
        #[kani::unwind($unw)]
        pub fn $name() {
            const B: usize = 16;
            const NB: usize = $nb;
            let iv: [u8; B] = kani::any();
            let pos: u128 = kani::any();
            kani::assume(pos <= u128::MAX - NB as u128);
            let c = UfE::<U16, $par>::with_key(kani::any());
            let s0 = spec::belt_s0(c.p(), &iv);
            let mut ks = [0u8; NB * B];
            spec::belt_ks(c.p(), s0, pos, &mut ks);
            let mut ks2 = [0u8; 3 * B];
            spec::belt_ks(c.p(), s0, pos.wrapping_add(NB as u128), &mut ks2);
            let mut core = belt_ctr::BeltCtrCore::inner_iv_init(c.clone(), blk::<U16>(&iv));
            assert!(core.get_block_pos() as u128 == 0);
            assert!(core.remaining_blocks().is_none());
            core.set_block_pos(pos as _);
            assert!(core.get_block_pos() as u128 == (pos) as u128, "get_block_pos after set_block_pos");
            let want_rem = u128::MAX - pos;
            let rem = core.remaining_blocks();
            if want_rem <= usize::MAX as u128 {
                assert!(rem == Some(want_rem as usize), "remaining_blocks exact");
            } else {
                assert!(rem.is_none());
            }
            let orig: [u8; NB * B] = kani::any();
            let mut buf = orig;
            core.apply_keystream_blocks(blocks_mut::<U16>(&mut buf));
            let mut i = 0;
            while i < NB * B {
                assert!(buf[i] == orig[i] ^ ks[i], "keystream block differs from E(s0 + i + 1)");
                i += 1;
            }
            assert!(core.get_block_pos() as u128 == (pos + NB as u128) as u128);
            // single-block core API: in place, then buffer-to-buffer into a dirty block
            if pos <= u128::MAX - NB as u128 - 4 {
                let one: [u8; B] = kani::any();
                let mut b1 = one;
                core.apply_keystream_block_inout(blk_mut::<U16>(&mut b1).into());
                let mut out: [u8; B] = kani::any();
                core.apply_keystream_block_inout((blk::<U16>(&one), blk_mut::<U16>(&mut out)).into());
                let mut j = 0;
                while j < B {
                    assert!(b1[j] == one[j] ^ ks2[j], "apply_keystream_block_inout (in place) differs");
                    assert!(out[j] == one[j] ^ ks2[B + j], "apply_keystream_block_inout (buffer to buffer) differs");
                    j += 1;
                }
                let mut raw = [0u8; B];
                core.write_keystream_block(blk_mut::<U16>(&mut raw));
                let mut j = 0;
                while j < B {
                    assert!(raw[j] == ks2[2 * B + j], "write_keystream_block differs");
                    j += 1;
                }
                assert!(core.get_block_pos() as u128 == (pos + NB as u128 + 3) as u128);
            }
            kani::cover!(true);
            kani::cover!(s0 > u128::MAX - 2 && pos == 0); // s wraps through 2^128 inside the run
        }
    };
}

/// Byte-level alias from key + IV bytes; encryption and decryption are the same call.
macro_rules! belt_alias_case {
    ($name:ident, $unw:expr, $par:ty, $l:expr) => {
        #[kani::proof]
        #[kani::unwind($unw)]
        pub fn $name() {
            const B: usize = 16;
            const L: usize = $l;
            const NB: usize = (L + B - 1) / B;
            let key: [u8; 2] = kani::any();
            let iv: [u8; B] = kani::any();
            let c = UfE::<U16, $par>::with_key(key);
            let s0 = spec::belt_s0(c.p(), &iv);
            let mut ks = [0u8; NB * B];
            spec::belt_ks(c.p(), s0, 0, &mut ks);
            let mut s = belt_ctr::BeltCtr::<UfE<U16, $par>>::new(&key.into(), blk::<U16>(&iv));
            let orig: [u8; L + 1] = kani::any();
            let mut buf = orig;
            s.apply_keystream(&mut buf[..L]);
            let mut i = 0;
            while i < L {
                assert!(buf[i] == orig[i] ^ ks[i], "byte-level keystream differs");
                i += 1;
            }
            assert!(buf[L] == orig[L]);
            assert!(s.current_pos::<u128>() == L as u128);
            // same operation again from the start = decryption
            s.seek(0u32);
            s.apply_keystream(&mut buf[..L]);
            let mut i = 0;
            while i <= L {
                assert!(buf[i] == orig[i], "applying the keystream twice must restore the data");
                i += 1;
            }
            kani::cover!(true);
        }
    };
}

belt_core_case!(belt_core_w1_n2, 64, U1, 2);
belt_core_case!(belt_core_w2_n3, 64, U2, 3);
belt_alias_case!(belt_alias_w1_l17, 64, U1, 17);
belt_core_case!(t_belt_core_w3_n4, 80, U3, 4);
belt_core_case!(t_belt_core_w4_n5, 100, U4, 5);
belt_alias_case!(t_belt_alias_w2_l33, 80, U2, 33);
