//! C03: CFB, CFB-8 and OFB compute exactly their defining recurrences, using only the
//! encryption direction (the cipher type `UfE` does not implement `BlockCipherDecrypt`).
use crate::prelude::*;

pub const MULTI: u8 = 0;
pub const SINGLE: u8 = 1;
pub const B2B: u8 = 2;
pub const ONESHOT: u8 = 3; // AsyncStreamCipher::{encrypt,decrypt} (whole blocks + partial tail)
pub const ONESHOT_B2B: u8 = 4;
pub const CLOSURE: u8 = 5; // custom closure calling the mode backend's *_inplace entry points

/// Full-block CFB through the block API or the one-shot API; L bytes (tail allowed for one-shot).
macro_rules! cfb_case {
    ($name:ident, $unw:expr, $ty:ident, $dir:ident, $enc:expr, $bs:ty, $b:expr, $par:ty, $l:expr, $how:expr) => {
        #[kani::proof]
        #[kani::unwind($unw)]
        pub fn $name() {
            const B: usize = $b;
            const L: usize = $l;
            let iv: [u8; B] = kani::any();
            let input: [u8; L] = kani::any();
            let c = UfE::<$bs, $par>::with_key(kani::any());
            let mut want = [0u8; L];
            spec::cfb(c.p(), $enc, &iv, &input, &mut want);
            let mut m = cfb_mode::$ty::inner_iv_init(c.clone(), blk::<$bs>(&iv));
            let mut buf = input;
            let dirty: [u8; L] = kani::any();
            let mut out = dirty;
            if $how == MULTI {
                do_blocks!($dir, m, blocks_mut::<$bs>(&mut buf));
            } else if $how == SINGLE {
                for blk in blocks_mut::<$bs>(&mut buf).iter_mut() {
                    do_block!($dir, m, blk);
                }
            } else if $how == B2B {
                let r = do_blocks_b2b!($dir, m, blocks::<$bs>(&input), blocks_mut::<$bs>(&mut out));
                assert!(r.is_ok());
                buf = out;
            } else if $how == ONESHOT {
                do_oneshot!($dir, m, &mut buf[..]);
            } else if $how == CLOSURE {
                do_closure!($dir, m, blocks_mut::<$bs>(&mut buf));
            } else {
                let r = do_oneshot_b2b!($dir, m, &input[..], &mut out[..]);
                assert!(r.is_ok());
                buf = out;
            }
            let mut i = 0;
            while i < L {
                assert!(buf[i] == want[i], "CFB output differs from the recurrence");
                i += 1;
            }
            kani::cover!(true);
        }
    };
}

/// One-shot CFB with a symbolic length in [0, M]: bytes beyond the length untouched.
macro_rules! cfb_symlen_case {
    ($name:ident, $unw:expr, $ty:ident, $dir:ident, $enc:expr, $bs:ty, $b:expr, $par:ty, $m:expr) => {
        #[kani::proof]
        #[kani::unwind($unw)]
        pub fn $name() {
            const B: usize = $b;
            const M: usize = $m;
            let iv: [u8; B] = kani::any();
            let input: [u8; M] = kani::any();
            let len: usize = kani::any();
            kani::assume(len <= M);
            let c = UfE::<$bs, $par>::with_key(kani::any());
            let want = spec::cfb_symlen::<M>(c.p(), $enc, &iv, &input, len);
            let mut buf = input;
            split_on!(len, 0, M, l => {
                let m = cfb_mode::$ty::inner_iv_init(c.clone(), blk::<$bs>(&iv));
                do_oneshot!($dir, m, &mut buf[..l]);
            });
            let mut i = 0;
            while i < M {
                assert!(buf[i] == want[i], "one-shot CFB output differs from the recurrence");
                i += 1;
            }
            kani::cover!(len == M);
            kani::cover!(len == 0);
            kani::cover!(len == B);
        }
    };
}

/// CFB-8 through the (1-byte) block API or one-shot; concrete length.
macro_rules! cfb8_case {
    ($name:ident, $unw:expr, $ty:ident, $dir:ident, $enc:expr, $bs:ty, $b:expr, $par:ty, $l:expr, $how:expr) => {
        #[kani::proof]
        #[kani::unwind($unw)]
        pub fn $name() {
            const B: usize = $b;
            const L: usize = $l;
            let iv: [u8; B] = kani::any();
            let input: [u8; L] = kani::any();
            let c = UfE::<$bs, $par>::with_key(kani::any());
            let mut want = [0u8; L];
            spec::cfb8(c.p(), $enc, &iv, &input, &mut want);
            let mut m = cfb8::$ty::inner_iv_init(c.clone(), blk::<$bs>(&iv));
            let mut buf = input;
            let dirty: [u8; L] = kani::any();
            let mut out = dirty;
            if $how == MULTI {
                do_blocks!($dir, m, blocks_mut::<U1>(&mut buf));
            } else if $how == SINGLE {
                for blk in blocks_mut::<U1>(&mut buf).iter_mut() {
                    do_block!($dir, m, blk);
                }
            } else if $how == B2B {
                let r = do_blocks_b2b!($dir, m, blocks::<U1>(&input), blocks_mut::<U1>(&mut out));
                assert!(r.is_ok());
                buf = out;
            } else if $how == ONESHOT {
                do_oneshot!($dir, m, &mut buf[..]);
            } else {
                let r = do_oneshot_b2b!($dir, m, &input[..], &mut out[..]);
                assert!(r.is_ok());
                buf = out;
            }
            let mut i = 0;
            while i < L {
                assert!(buf[i] == want[i], "CFB-8 output differs from the shift-register recurrence");
                i += 1;
            }
            kani::cover!(true);
        }
    };
}

macro_rules! cfb8_symlen_case {
    ($name:ident, $unw:expr, $ty:ident, $dir:ident, $enc:expr, $bs:ty, $b:expr, $m:expr) => {
        #[kani::proof]
        #[kani::unwind($unw)]
        pub fn $name() {
            const B: usize = $b;
            const M: usize = $m;
            let iv: [u8; B] = kani::any();
            let input: [u8; M] = kani::any();
            let len: usize = kani::any();
            kani::assume(len <= M);
            let c = UfE::<$bs, U2>::with_key(kani::any());
            let want = spec::cfb8_symlen::<M>(c.p(), $enc, &iv, &input, len);
            let mut buf = input;
            split_on!(len, 0, M, l => {
                let m = cfb8::$ty::inner_iv_init(c.clone(), blk::<$bs>(&iv));
                do_oneshot!($dir, m, &mut buf[..l]);
            });
            let mut i = 0;
            while i < M {
                assert!(buf[i] == want[i], "one-shot CFB-8 output differs from the recurrence");
                i += 1;
            }
            kani::cover!(len == M);
            kani::cover!(len == 0);
        }
    };
}

/// OFB through its four faces, concrete length L (tail only for the byte-level face).
pub const F_ENC: u8 = 0;
pub const F_DEC: u8 = 1;
pub const F_CORE: u8 = 2; // StreamCipherCore::apply_keystream_blocks
pub const F_WRITE: u8 = 3; // StreamCipherCore::write_keystream_block(s)
pub const F_BYTES: u8 = 4; // ofb::Ofb byte-level, from key+iv bytes
macro_rules! ofb_case {
    ($name:ident, $unw:expr, $bs:ty, $b:expr, $par:ty, $l:expr, $face:expr) => {
        #[kani::proof]
        #[kani::unwind($unw)]
        pub fn $name() {
            const B: usize = $b;
            const L: usize = $l;
            const NB: usize = (L + B - 1) / B;
            const WHOLE: usize = (L / B) * B;
            let key: [u8; 2] = kani::any();
            let iv: [u8; B] = kani::any();
            let input: [u8; L] = kani::any();
            let c = UfE::<$bs, $par>::with_key(key);
            let mut ks = [0u8; NB * B];
            let last = spec::ofb_ks(c.p(), &iv, &mut ks);
            let mut buf = input;
            let n_done;
            if $face == F_BYTES {
                let mut s = ofb::Ofb::<UfE<$bs, $par>>::new(&key.into(), blk::<$bs>(&iv));
                s.apply_keystream(&mut buf);
                n_done = L;
            } else {
                let mut m = ofb::OfbCore::inner_iv_init(c.clone(), blk::<$bs>(&iv));
                if $face == F_ENC {
                    m.encrypt_blocks(blocks_mut::<$bs>(&mut buf[..WHOLE]));
                } else if $face == F_DEC {
                    m.decrypt_blocks(blocks_mut::<$bs>(&mut buf[..WHOLE]));
                } else if $face == F_CORE {
                    m.apply_keystream_blocks(blocks_mut::<$bs>(&mut buf[..WHOLE]));
                } else {
                    // raw keystream: first block singly, the rest in one call
                    let mut raw = [0u8; WHOLE];
                    {
                        let bl = blocks_mut::<$bs>(&mut raw);
                        if !bl.is_empty() {
                            let (first, rest) = bl.split_at_mut(1);
                            m.write_keystream_block(&mut first[0]);
                            m.write_keystream_blocks(rest);
                        }
                    }
                    let mut i = 0;
                    while i < WHOLE {
                        buf[i] ^= raw[i];
                        i += 1;
                    }
                }
                n_done = WHOLE;
                // exported state = last keystream block O_n (n = whole blocks)
                let st = m.iv_state();
                let mut o = [0u8; B];
                let mut j = 0;
                while j < B {
                    o[j] = if WHOLE == 0 { iv[j] } else { ks[WHOLE - B + j] };
                    j += 1;
                }
                let mut j = 0;
                while j < B {
                    assert!(st[j] == o[j], "OFB exported state is not the last keystream block");
                    j += 1;
                }
                let _ = last;
            }
            let mut i = 0;
            while i < L {
                if i < n_done {
                    assert!(buf[i] == input[i] ^ ks[i], "OFB output differs from O_i = E(O_(i-1))");
                } else {
                    assert!(buf[i] == input[i]);
                }
                i += 1;
            }
            kani::cover!(true);
        }
    };
}

/// StreamCipherCore::apply_keystream_partial (one-shot on the core, any length): OFB / CTR / BelT cores.
macro_rules! partial_case {
    ($name:ident, $unw:expr, $mk:expr, $ks:expr, $bs:ty, $b:expr, $par:ty, $l:expr) => {
        #[kani::proof]
        #[kani::unwind($unw)]
        pub fn $name() {
            const B: usize = $b;
            const L: usize = $l;
            const NB: usize = (L + B - 1) / B;
            let iv: [u8; B] = kani::any();
            let c = UfE::<$bs, $par>::with_key(kani::any());
            let mut ks = [0u8; NB * B];
            $ks(c.p(), &iv, &mut ks);
            let d: [u8; L + 1] = kani::any();
            let mut buf = d;
            $mk(c.clone(), blk::<$bs>(&iv)).apply_keystream_partial((&mut buf[..L]).into());
            let mut i = 0;
            while i < L {
                assert!(buf[i] == d[i] ^ ks[i], "apply_keystream_partial differs from the keystream recurrence");
                i += 1;
            }
            assert!(buf[L] == d[L]);
            kani::cover!(true);
        }
    };
}
fn pk_ofb(p: P, iv: &[u8], ks: &mut [u8]) { spec::ofb_ks(p, iv, ks); }
fn pk_ctr32be(p: P, iv: &[u8], ks: &mut [u8]) { spec::ctr_ks(p, spec::CTR32BE, iv, 0, ks) }
fn pk_ctr128le(p: P, iv: &[u8], ks: &mut [u8]) { spec::ctr_ks(p, spec::CTR128LE, iv, 0, ks) }
fn pk_belt(p: P, iv: &[u8], ks: &mut [u8]) { let s0 = spec::belt_s0(p, iv); spec::belt_ks(p, s0, 0, ks) }
fn pm_ofb<C: cipher::BlockCipherEncrypt>(c: C, iv: &Array<u8, C::BlockSize>) -> ofb::OfbCore<C> { ofb::OfbCore::inner_iv_init(c, iv) }
fn pm_ctr32be<C: cipher::BlockCipherEncrypt<BlockSize = U4>>(c: C, iv: &Array<u8, U4>) -> ctr::CtrCore<C, ctr::flavors::Ctr32BE> { ctr::CtrCore::inner_iv_init(c, iv) }
fn pm_ctr128le<C: cipher::BlockCipherEncrypt<BlockSize = U16>>(c: C, iv: &Array<u8, U16>) -> ctr::CtrCore<C, ctr::flavors::Ctr128LE> { ctr::CtrCore::inner_iv_init(c, iv) }
fn pm_belt<C: cipher::BlockCipherEncrypt<BlockSize = U16>>(c: C, iv: &Array<u8, U16>) -> belt_ctr::BeltCtrCore<C> { belt_ctr::BeltCtrCore::inner_iv_init(c, iv) }

// ---- quick -------------------------------------------------------------------------------
cfb_case!(cfb_enc_b2_w2_n3_multi, 40, Encryptor, enc, true, U2, 2, U2, 6, MULTI);
cfb_case!(cfb_enc_b4_w1_n3_b2b, 40, Encryptor, enc, true, U4, 4, U1, 12, B2B);
cfb_case!(cfb_enc_b2_w2_l7_oneshot, 40, Encryptor, enc, true, U2, 2, U2, 7, ONESHOT);
cfb_case!(cfb_dec_b2_w2_n3_multi, 40, Decryptor, dec, false, U2, 2, U2, 6, MULTI); // parallel body + tail
cfb_case!(cfb_dec_b4_w3_n4_b2b, 40, Decryptor, dec, false, U4, 4, U3, 16, B2B);
cfb_case!(cfb_dec_b2_w1_n3_single, 40, Decryptor, dec, false, U2, 2, U1, 6, SINGLE);
cfb_case!(cfb_dec_b2_w3_l9_oneshot, 40, Decryptor, dec, false, U2, 2, U3, 9, ONESHOT); // group of 3 + 1 + tail byte
cfb_case!(cfb_dec_b4_w2_l11_oneshot_b2b, 40, Decryptor, dec, false, U4, 4, U2, 11, ONESHOT_B2B);
cfb_case!(cfb_dec_b2_w2_l6_oneshot_b2b, 40, Decryptor, dec, false, U2, 2, U2, 6, ONESHOT_B2B);
cfb_case!(cfb_enc_b2_w1_l4_oneshot_b2b, 40, Encryptor, enc, true, U2, 2, U1, 4, ONESHOT_B2B);
cfb_case!(cfb_enc_b2_w2_n4_closure, 40, Encryptor, enc, true, U2, 2, U2, 8, CLOSURE);
cfb_case!(cfb_dec_b2_w2_n4_closure, 40, Decryptor, dec, false, U2, 2, U2, 8, CLOSURE);
cfb_symlen_case!(cfb_enc_b2_w1_symlen7, 40, Encryptor, enc, true, U2, 2, U1, 7);
cfb_symlen_case!(cfb_dec_b2_w2_symlen7, 40, Decryptor, dec, false, U2, 2, U2, 7);
cfb8_case!(cfb8_enc_b3_l5_oneshot, 40, Encryptor, enc, true, U3, 3, U2, 5, ONESHOT);
cfb8_case!(cfb8_enc_b2_l4_multi, 40, Encryptor, enc, true, U2, 2, U1, 4, MULTI);
cfb8_case!(cfb8_dec_b3_l5_oneshot, 40, Decryptor, dec, false, U3, 3, U2, 5, ONESHOT);
cfb8_case!(cfb8_dec_b2_l4_b2b, 40, Decryptor, dec, false, U2, 2, U1, 4, B2B);
cfb8_case!(cfb8_dec_b2_w4_l9_multi, 40, Decryptor, dec, false, U2, 2, U4, 9, MULTI); // cipher width > block size
cfb8_case!(cfb8_enc_b2_w4_l9_multi, 40, Encryptor, enc, true, U2, 2, U4, 9, MULTI);
cfb8_symlen_case!(cfb8_enc_b2_symlen5, 40, Encryptor, enc, true, U2, 2, 5);
cfb8_symlen_case!(cfb8_dec_b2_symlen5, 40, Decryptor, dec, false, U2, 2, 5);
cfb_case!(cfb_dec_b12_w2_l29_oneshot, 48, Decryptor, dec, false, U12, 12, U2, 29, ONESHOT);
cfb8_case!(cfb8_enc_b12_l14_oneshot, 40, Encryptor, enc, true, U12, 12, U1, 14, ONESHOT);
ofb_case!(ofb_bytes_b12_w1_l29, 48, U12, 12, U1, 29, F_BYTES);
partial_case!(partial_ofb_b4_w2_l11, 48, pm_ofb, pk_ofb, U4, 4, U2, 11);
partial_case!(partial_ofb_b2_w1_l1, 48, pm_ofb, pk_ofb, U2, 2, U1, 1);
partial_case!(partial_ctr32be_b4_w2_l14, 48, pm_ctr32be, pk_ctr32be, U4, 4, U2, 14);
partial_case!(partial_ctr128le_b16_w2_l37, 100, pm_ctr128le, pk_ctr128le, U16, 16, U2, 37);
partial_case!(partial_belt_w2_l35, 100, pm_belt, pk_belt, U16, 16, U2, 35);
// single-block entry points of the decryptors
cfb8_case!(cfb8_dec_b2_l4_single, 40, Decryptor, dec, false, U2, 2, U1, 4, SINGLE);
// wide backends: width 16 with a tail of 11 blocks (one-byte blocks)
cfb_case!(cfb_dec_b1_w16_n12_multi, 64, Decryptor, dec, false, U1, 1, U16, 12, MULTI);
cfb_case!(cfb_dec_b1_w16_n28_multi, 80, Decryptor, dec, false, U1, 1, U16, 28, MULTI);
ofb_case!(ofb_enc_b2_w2_n3, 40, U2, 2, U2, 6, F_ENC);
ofb_case!(ofb_dec_b2_w2_n3, 40, U2, 2, U2, 6, F_DEC);
ofb_case!(ofb_core_b4_w1_n3, 40, U4, 4, U1, 12, F_CORE);
ofb_case!(ofb_write_b2_w3_n3, 40, U2, 2, U3, 6, F_WRITE);
ofb_case!(ofb_bytes_b4_w2_l9, 40, U4, 4, U2, 9, F_BYTES);

// ---- thorough ----------------------------------------------------------------------------
cfb_case!(t_cfb_enc_b1_w4_n5_multi, 40, Encryptor, enc, true, U1, 1, U4, 5, MULTI);
cfb_case!(t_cfb_enc_b3_w2_n4_single, 40, Encryptor, enc, true, U3, 3, U2, 12, SINGLE);
cfb_case!(t_cfb_enc_b8_w3_l25_oneshot_b2b, 60, Encryptor, enc, true, U8, 8, U3, 25, ONESHOT_B2B);
cfb_case!(t_cfb_enc_b16_w1_l35_oneshot, 80, Encryptor, enc, true, U16, 16, U1, 35, ONESHOT);
cfb_case!(t_cfb_dec_b1_w8_n9_multi, 40, Decryptor, dec, false, U1, 1, U8, 9, MULTI);
cfb_case!(t_cfb_dec_b1_w8_n33_multi, 80, Decryptor, dec, false, U1, 1, U8, 33, MULTI);
cfb_case!(t_cfb_enc_b1_w1_l33_oneshot, 80, Encryptor, enc, true, U1, 1, U1, 33, ONESHOT);
cfb8_case!(t_cfb8_enc_b1_l34_oneshot, 80, Encryptor, enc, true, U1, 1, U1, 34, ONESHOT);
cfb8_case!(t_cfb8_dec_b2_w4_l33_multi, 80, Decryptor, dec, false, U2, 2, U4, 33, MULTI);
cfb_case!(t_cfb_dec_b2_w2_n5_multi, 40, Decryptor, dec, false, U2, 2, U2, 10, MULTI);
cfb_case!(t_cfb_dec_b3_w4_l16_oneshot, 40, Decryptor, dec, false, U3, 3, U4, 16, ONESHOT);
cfb_case!(t_cfb_dec_b8_w2_l25_oneshot_b2b, 60, Decryptor, dec, false, U8, 8, U2, 25, ONESHOT_B2B);
cfb_case!(t_cfb_dec_b16_w2_n3_multi, 80, Decryptor, dec, false, U16, 16, U2, 48, MULTI);
cfb_symlen_case!(t_cfb_enc_b3_w2_symlen10, 40, Encryptor, enc, true, U3, 3, U2, 10);
cfb_symlen_case!(t_cfb_dec_b3_w2_symlen10, 40, Decryptor, dec, false, U3, 3, U2, 10);
cfb_symlen_case!(t_cfb_dec_b4_w3_symlen13, 40, Decryptor, dec, false, U4, 4, U3, 13);
cfb8_case!(t_cfb8_enc_b1_l4_oneshot, 40, Encryptor, enc, true, U1, 1, U1, 4, ONESHOT);
cfb8_case!(t_cfb8_enc_b4_l9_single, 40, Encryptor, enc, true, U4, 4, U2, 9, SINGLE);
cfb8_case!(t_cfb8_enc_b8_l10_oneshot_b2b, 40, Encryptor, enc, true, U8, 8, U1, 10, ONESHOT_B2B);
cfb8_case!(t_cfb8_dec_b1_l4_multi, 40, Decryptor, dec, false, U1, 1, U1, 4, MULTI);
cfb8_case!(t_cfb8_dec_b4_l9_oneshot, 40, Decryptor, dec, false, U4, 4, U2, 9, ONESHOT);
cfb8_case!(t_cfb8_dec_b8_l10_single, 40, Decryptor, dec, false, U8, 8, U1, 10, SINGLE);
cfb8_symlen_case!(t_cfb8_enc_b3_symlen7, 40, Encryptor, enc, true, U3, 3, 7);
cfb8_symlen_case!(t_cfb8_dec_b3_symlen7, 40, Decryptor, dec, false, U3, 3, 7);
ofb_case!(t_ofb_enc_b1_w4_n5, 40, U1, 1, U4, 5, F_ENC);
ofb_case!(t_ofb_dec_b3_w2_n4, 40, U3, 3, U2, 12, F_DEC);
ofb_case!(t_ofb_core_b8_w3_n4, 60, U8, 8, U3, 32, F_CORE);
ofb_case!(t_ofb_write_b4_w2_n4, 40, U4, 4, U2, 16, F_WRITE);
ofb_case!(t_ofb_bytes_b2_w1_l7, 40, U2, 2, U1, 7, F_BYTES);
ofb_case!(t_ofb_bytes_b16_w2_l35, 80, U16, 16, U2, 35, F_BYTES);

// odd / non-power-of-two block sizes
cfb_case!(t_cfb_enc_b5_w2_l13_oneshot, 40, Encryptor, enc, true, U5, 5, U2, 13, ONESHOT);
cfb_case!(t_cfb_dec_b7_w3_l30_oneshot_b2b, 48, Decryptor, dec, false, U7, 7, U3, 30, ONESHOT_B2B);
cfb_case!(t_cfb_dec_b12_w2_n3_multi, 48, Decryptor, dec, false, U12, 12, U2, 36, MULTI);
cfb8_case!(t_cfb8_enc_b5_l8_oneshot, 40, Encryptor, enc, true, U5, 5, U1, 8, ONESHOT);
cfb8_case!(t_cfb8_dec_b7_l10_multi, 40, Decryptor, dec, false, U7, 7, U2, 10, MULTI);
cfb8_case!(t_cfb8_dec_b12_l14_oneshot_b2b, 40, Decryptor, dec, false, U12, 12, U1, 14, ONESHOT_B2B);
cfb8_case!(t_cfb8_enc_b16_l18_oneshot, 48, Encryptor, enc, true, U16, 16, U1, 18, ONESHOT);
cfb8_case!(t_cfb8_dec_b16_l18_oneshot, 48, Decryptor, dec, false, U16, 16, U1, 18, ONESHOT);
ofb_case!(t_ofb_enc_b5_w2_n3, 40, U5, 5, U2, 15, F_ENC);
ofb_case!(t_ofb_bytes_b7_w3_l17, 40, U7, 7, U3, 17, F_BYTES);

/// Longer single call of CFB-8 with the cheap concrete cipher `Lin` (symbolic key, IV and
/// data): every output byte equals the shift-register recurrence.
macro_rules! cfb8_long_case {
    ($name:ident, $unw:expr, $ty:ident, $dir:ident, $enc:expr, $bs:ty, $b:expr, $l:expr, $how:expr) => {
        #[kani::proof]
        #[kani::unwind($unw)]
        pub fn $name() {
            const B: usize = $b;
            const L: usize = $l;
            let iv: [u8; B] = kani::any();
            let input: [u8; L] = kani::any();
            let key: [u8; 2] = kani::any();
            let c = Lin::<$bs, U1>::with_key(key);
            let mut m = cfb8::$ty::inner_iv_init(c, blk::<$bs>(&iv));
            let mut buf = input;
            let mut out = [0xa5u8; L];
            if $how == MULTI {
                do_blocks!($dir, m, blocks_mut::<U1>(&mut buf));
            } else if $how == ONESHOT {
                do_oneshot!($dir, m, &mut buf[..]);
            } else {
                let r = do_oneshot_b2b!($dir, m, &input[..], &mut out[..]);
                assert!(r.is_ok());
                buf = out;
            }
            // recurrence: the register's first byte at step j is ciphertext byte j-B (IV before)
            let mut j = 0;
            while j < L {
                let s0 = if j < B { iv[j] } else if $enc { buf[j - B] } else { input[j - B] };
                let want = input[j] ^ lin_byte(key, s0);
                assert!(buf[j] == want, "CFB-8 long call: output differs from the shift-register recurrence");
                j += 1;
            }
            kani::cover!(true);
        }
    };
}
cfb8_long_case!(cfb8_enc_long_b2_l64_oneshot, 80, Encryptor, enc, true, U2, 2, 64, ONESHOT);
cfb8_long_case!(t_cfb8_dec_long_b2_l64_multi, 80, Decryptor, dec, false, U2, 2, 64, MULTI);
