#!/bin/bash
# final quick run concurrent with other dev jobs: separate worker dirs, 8 workers
export VERIF_WORKER_BASE=20
: > /verif/.build/dev/all-quick.log
for p in C01 C02 C03 C04 C05 C06 C07 C08 C09 C10 C11 C12 C13 C14 C15 C16 C17; do
  s=$(date +%s)
  python3 /verif/bin/check.py $p --tier quick --jobs 8 > /verif/.build/dev/$p-quick.log 2>&1
  echo "$p exit $? wall $(( $(date +%s) - s ))s" >> /verif/.build/dev/all-quick.log
done
