#!/bin/bash
rm -rf /verif/.build/harness-snap && cp -r /verif/harness /verif/.build/harness-snap
export VERIF_HARNESS=/verif/.build/harness-snap
python3 /verif/bin/seeded.py detect C10-4 --tier quick --props C16 >> /verif/.build/dev/detect.log 2>&1
python3 /verif/bin/seeded.py detect C11-3 --tier quick --props C16 >> /verif/.build/dev/detect.log 2>&1
python3 /verif/bin/seeded.py detect CS3-oneblock --tier quick --props C14 >> /verif/.build/dev/detect.log 2>&1
