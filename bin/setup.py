#!/usr/bin/env python3
"""Offline setup after a fresh restore: generate harness/Cargo.toml against ${VERIF_REPO:-/repo},
do one cold Kani build into /verif/.build, and cross-check harness discovery against
`cargo kani list`."""
import json, os, subprocess, sys, time
sys.path.insert(0, os.path.dirname(os.path.abspath(__file__)))
import vlib


def cross_check():
    env = vlib.base_env("list")
    r = subprocess.run(["cargo", "kani", "list", "--format", "json"], cwd=vlib.crate_dir(), env=env,
                       stdout=subprocess.PIPE, stderr=subprocess.STDOUT, text=True)
    if r.returncode != 0:
        print(r.stdout[-4000:])
        print("setup: cargo kani list failed", file=sys.stderr)
        return 1
    lst = json.load(open(os.path.join(vlib.crate_dir(), "kani-list.json")))
    compiled = set()
    for f, hs in lst.get("standard-harnesses", {}).items():
        compiled.update(hs)
    disc = set(f"{m}::{n}" for m, ns in vlib.discover().items() for n in ns)
    if compiled != disc:
        print("setup: harness discovery mismatch", file=sys.stderr)
        print("  only in compiler list:", sorted(compiled - disc)[:20], file=sys.stderr)
        print("  only in source scan:", sorted(disc - compiled)[:20], file=sys.stderr)
        return 1
    print("cross-check ok:", len(compiled), "harnesses")
    return 0


def main():
    t0 = time.time()
    vlib.gen_manifest()
    compiled = set(f"{m}::{n}" for m, ns in vlib.discover().items() for n in ns)
    if os.environ.get("VERIF_SETUP_LIST") == "1":
        # optional (several minutes): cross-check the source scan against the compiler's own harness list
        rc = cross_check()
        if rc:
            return rc
    # warm worker 0 (dependencies + one harness), then seed the other worker directories from it
    import shutil
    warm = ["cargo", "kani", "--no-default-features", "--features", "c02", "--harness", "c02::cbc_dec_b2_w2_n0", "--exact", "--only-codegen"]
    r = subprocess.run(warm, cwd=vlib.crate_dir(), env=vlib.base_env(0), stdout=subprocess.PIPE, stderr=subprocess.STDOUT, text=True)
    if r.returncode != 0:
        print(r.stdout[-3000:])
        print("setup: warm build failed", file=sys.stderr)
        return 1
    vlib.clean_goto_outputs(0)
    w0 = vlib.target_dir(0)
    for w in range(1, 12):
        d = vlib.target_dir(w)
        if not os.path.exists(d):
            subprocess.run(["cp", "-a", w0, d], check=True)
    # native self-test: the reference models against the repository's own known-answer vectors
    st = subprocess.run(["cargo", "test", "--offline", "--no-default-features", "--test", "spec_vectors"], cwd=vlib.crate_dir(),
                        env=vlib.base_env("native"), stdout=subprocess.PIPE, stderr=subprocess.STDOUT, text=True)
    if st.returncode != 0 or "test result: ok" not in st.stdout:
        print(st.stdout[-3000:])
        print("setup: reference-model self-test (tests/spec_vectors.rs) failed", file=sys.stderr)
        return 1
    print("reference models agree with the repository's known-answer vectors (8 groups)")
    print(f"setup ok: {len(compiled)} harnesses, {time.time()-t0:.0f}s")
    return 0


if __name__ == "__main__":
    sys.exit(main())
