#!/usr/bin/env python3
"""Offline setup after a fresh restore: generate harness/Cargo.toml against ${VERIF_REPO:-/repo},
do one cold Kani build into /verif/.build, and cross-check harness discovery against
`cargo kani list`."""
import json, os, subprocess, sys, time
sys.path.insert(0, os.path.dirname(os.path.abspath(__file__)))
import vlib


def main():
    t0 = time.time()
    vlib.gen_manifest()
    env = vlib.base_env()
    r = subprocess.run(["cargo", "kani", "list", "--format", "json"], cwd=vlib.HARNESS, env=env,
                       stdout=subprocess.PIPE, stderr=subprocess.STDOUT, text=True)
    if r.returncode != 0:
        print(r.stdout[-4000:])
        print("setup: cargo kani list failed", file=sys.stderr)
        return 1
    lst = json.load(open(os.path.join(vlib.HARNESS, "kani-list.json")))
    os.replace(os.path.join(vlib.HARNESS, "kani-list.json"), os.path.join(vlib.BUILD, "kani-list.json"))
    compiled = set()
    for f, hs in lst.get("standard-harnesses", {}).items():
        compiled.update(hs)
    disc = set(f"{m}::{n}" for m, ns in vlib.discover().items() for n in ns)
    if compiled != disc:
        print("setup: harness discovery mismatch", file=sys.stderr)
        print("  only in compiler list:", sorted(compiled - disc)[:20], file=sys.stderr)
        print("  only in source scan:", sorted(disc - compiled)[:20], file=sys.stderr)
        return 1
    print(f"setup ok: {len(compiled)} harnesses, {time.time()-t0:.0f}s")
    return 0


if __name__ == "__main__":
    sys.exit(main())
