#!/bin/bash
# dev helper: shake-out run of the thorough tier on a frozen copy of the harness sources, few workers
rm -rf /verif/.build/harness-snap2 && cp -r /verif/harness /verif/.build/harness-snap2
export VERIF_HARNESS=/verif/.build/harness-snap2
: > /verif/.build/dev/all-thorough.log
for p in ${@:-C01 C02 C03 C04 C05 C06 C07 C08 C09 C10 C11 C12 C13 C14 C15 C16 C17}; do
  s=$(date +%s)
  python3 /verif/bin/check.py $p --tier thorough --jobs ${JOBS:-4} > /verif/.build/dev/$p-thorough.log 2>&1
  echo "$p exit $? wall $(( $(date +%s) - s ))s" >> /verif/.build/dev/all-thorough.log
done
