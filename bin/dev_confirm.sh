#!/bin/bash
# dev helper: confirm a list of seeded mutants sequentially
for n in "$@"; do python3 /verif/bin/seeded.py confirm $n >> /verif/.build/dev/confirm.log 2>&1; done
