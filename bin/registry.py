"""Per-property metadata: which harness modules decide it, stated bounds, what lies outside,
assumptions.  The harness lists themselves are discovered from harness/src/cNN.rs
(names starting with t_ are thorough-only, kf_ are dedicated known-finding harnesses).
The concrete instantiation of every harness (block size b, parallel width w, blocks n / bytes l)
is part of its name and is copied into the evidence file."""

CIPHER = "every keyed permutation of the block space (uninterpreted function with functional+injective axioms), every 2-byte key"
COMMON_OUTSIDE = [
    "block sizes and parallel widths other than those instantiated (block size is a Rust type parameter: same generic code, N::USIZE only)",
    "32-bit usize targets; release-profile code generation (only counter-example replays run there)",
    "the cipher / inout / hybrid-array / block-padding / zeroize crates beyond the paths these harnesses drive",
]

PROPS = {
    "C01": dict(
        modules=["c01"],
        # the seek-based round trips rely on the core's position / remaining bookkeeping; when that
        # bookkeeping starts to depend on the IV the wrapper-level harness no longer finishes, so the core
        # contract harnesses (every position, every IV) are part of this check
        also=["c04::ctr128be_b32_w2_n3", "c04::ctr128le_b16_w2_n3", "c04::ctr64be_b24_w2_n3", "c04::ctr32be_b16_w2_n3", "c06::belt_core_w2_n3"],
        bounds=dict(cipher=CIPHER, key_iv_data="all values",
                    block_modes="CBC/PCBC/IGE/CFB/CFB-8: b in {2,4} (thorough +1,3,8), w in {1,2,3,4}, n = 3..9 blocks, mixed API paths (multi-block encrypt / single-block decrypt and vice versa, b2b)",
                    padded="Pkcs7, message lengths enumerated: 0, b-1, b, 2b+1 (quick), more in thorough; ciphertext length b*(L/b+1) asserted",
                    one_shot="CFB, CFB-8 one-shot with SYMBOLIC length 0..=3b+1",
                    buffered="BufEncryptor/BufDecryptor with different piece boundaries on both sides",
                    stream="six CTR flavours at a SYMBOLIC block position, OFB, BelT-CTR; 2b+1 bytes, decrypt in two calls",
                    cts="six CTS variants, SYMBOLIC length b..=3b+1 (b=2), thorough: b in {1,3,4}, up to 13 bytes"),
        outside=COMMON_OUTSIDE + ["messages longer than the stated bounds (longer histories: inductive steps of C07/C08/C09)",
                                  "*_padded_vec (alloc) convenience methods"],
        assumptions=[],
    ),
    "C02": dict(
        modules=["c02"],
        bounds=dict(cipher=CIPHER, iv_data="all values",
                    block_size="quick: 2, 4; thorough adds 1, 3, 8, 16",
                    parallel_width="quick: 1, 2, 3; thorough adds 4, 8",
                    blocks="quick: 0, 3, 4; thorough: 3..5 and 9 (w=8: one full group + tail)",
                    feeding="one multi-block call (parallel body + tail), one call per block, *_blocks_b2b into a dirty buffer, *_blocks_inout"),
        outside=COMMON_OUTSIDE + ["runs longer than 9 blocks (C07/C09 inductive steps cover longer histories)"],
        assumptions=["decryptor inputs are arbitrary blocks (not produced by an encryptor)"],
    ),
    "C03": dict(
        modules=["c03"],
        also=["c08::buf_enc_step_b2_a1_n5", "c08::buf_dec_step_b2_a1_n5", "c08::buf_enc_step_b2_a2_n5", "c08::buf_dec_step_b2_a0_n5",
              "c08::buf_enc_fresh_b2_l5", "c08::buf_dec_fresh_b2_l5", "c08::buf_enc_long_b2_p1_n12", "c08::buf_dec_long_b2_p1_n12",
              "c08::buf_dec_long_b1_p0_n9", "c08::ofb_b1_w1_p16_1_2", "c08::ofb_b2_w1_a3_n5",
              "c08::t_buf_enc_step_b3_a1_n7", "c08::t_buf_dec_step_b3_a1_n7"],
        bounds=dict(cipher=CIPHER + "; the cipher type implements ONLY the encryption traits, so use of the decryption direction would not compile",
                    cfb="block API (multi/single/b2b), one-shot with partial tail, concrete lengths up to 3b+3 and SYMBOLIC length 0..=3b+1; b in {2,4} (thorough 1,3,8,16); w in {1,2,3} (4, 8)",
                    cfb8="shift register with b in {2,3} (thorough 1,4,8), up to 10 bytes, SYMBOLIC length; one 64-byte single encrypt call (b=2) with the concrete byte-wise cipher Lin (symbolic key/IV/data) instead of the uninterpreted permutation",
                    ofb="four faces (encrypt, decrypt, keystream core, raw keystream, byte-level alias), b in {2,4} (1,3,8,16)",
                    buffered_cfb="from every reachable state (fresh object over a symbolic IV + first piece of a bytes, exported with get_state and re-imported with from_state) ONE call of SYMBOLIC length equals the CFB recurrence (c08 step harnesses); long calls (>= 4 whole blocks after a mid-block start) at concrete geometry"),
        outside=COMMON_OUTSIDE,
        assumptions=[],
    ),
    "C04": dict(
        modules=["c04"],
        bounds=dict(cipher=CIPHER, iv="all values (counter field at any value, incl. 2^k-1 boundaries)",
                    position="SYMBOLIC block index over the whole counter type, restricted to [0, 2^w-1-n] so that all n blocks lie inside the keystream",
                    block_sizes="Ctr32: 8 (quick); 4, 12, 16, 20 (thorough).  Ctr64: 16 (quick); 8, 24.  Ctr128: 16 (quick); 32",
                    blocks="n = 2..5 consecutive blocks (w=2 => parallel group + tail)",
                    also_checked="get_block_pos after set_block_pos, remaining_blocks exact, iv_state = next counter block, byte-level alias from key+IV bytes"),
        outside=COMMON_OUTSIDE + ["block sizes above 32 bytes"],
        assumptions=[],
    ),
    "C05": dict(
        modules=["c05"],
        bounds=dict(cipher=CIPHER, iv_data="all values",
                    quick="b=2, w=2: EVERY length 2..=9 (all residues, L=b, L=kb, >= w leading blocks so the parallel helpers run), each variant: encrypt == NIST definition, decrypt(ciphertext) == message, length preserved; arbitrary-ciphertext decrypt == NIST decryption procedure for L in {2,3,4,5,7,8}; b=4 with w in {1,3}, L in {4,7,8,21}",
                    thorough="SYMBOLIC L in [b, 4b+1] (b=2, w=2) and [4,13] (b=4, w=3); b in {1,3,8,16} at selected lengths"),
        outside=COMMON_OUTSIDE + ["messages longer than 47 bytes"],
        assumptions=["reference = SP 800-38A addendum transcribed in harness/src/spec.rs (cts_enc, cts_dec)"],
    ),
    "C06": dict(
        modules=["c06"],
        bounds=dict(cipher=CIPHER + " on 16-byte blocks", iv="all values, so E(IV) is an arbitrary 128-bit value (incl. near 2^128-1: wrap of s inside the run)",
                    position="SYMBOLIC block index over all of u128 (minus the n blocks generated)", blocks="n = 2..5, w in {1,2,3,4}",
                    alias="byte-level BeltCtr from key+IV bytes, 17 / 33 bytes, applied twice (encrypt == decrypt)"),
        outside=COMMON_OUTSIDE,
        assumptions=[],
    ),
    "C07": dict(
        modules=["c07"],
        # feeding blocks through a custom closure over the backend's *_inplace entry points is one more
        # "mixture of single-block and multi-block calls": those harnesses compare with the recurrence
        also=["c02::cbc_dec_b2_w2_n4_closure", "c02::cbc_enc_b2_w2_n4_closure", "c02::pcbc_dec_b2_w2_n4_closure", "c02::pcbc_enc_b2_w2_n4_closure",
              "c02::ige_enc_b2_w2_n4_closure", "c02::ige_dec_b2_w3_n5_closure", "c03::cfb_dec_b2_w2_n4_closure", "c03::cfb_enc_b2_w2_n4_closure"],
        bounds=dict(cipher=CIPHER, method="inductive step: from an ARBITRARY chaining state (symbolic IV / counter position) ONE multi-block call of k blocks, k SYMBOLIC in [0,K], on a width-w cipher == k single-block calls on a width-1 cipher, same exported state; any composition reduces to single-block calls piece by piece",
                    K="5 (quick; w=2: two full groups + tail, w=3: group + 2), up to 9 with w=8 (thorough)", block_size="2 (quick), 1, 3, 4 (thorough); CTR/BelT with their native sizes",
                    confirmation="thorough: three pieces at two symbolic cut points through three call kinds (b2b, inout, in place / single-block b2b); CTS one-shot calls compared across widths"),
        outside=COMMON_OUTSIDE + ["that the exported state is the complete state is C09; agreement of in-place / b2b / inout forms is C12"],
        assumptions=[],
    ),
    "C08": dict(
        modules=["c08"],
        # the wrapper's cut logic relies on the core reporting its remaining blocks exactly (core contract),
        # and the core's own one-shot byte API (apply_keystream_partial) must agree with the byte-level wrapper
        also=["c04::ctr32be_b16_w2_n3", "c04::ctr64be_b24_w2_n3", "c04::ctr128le_b16_w2_n3", "c06::belt_core_w2_n3",
              "c03::partial_ofb_b4_w2_l11", "c03::partial_ofb_b2_w1_l1", "c03::partial_ctr32be_b4_w2_l14", "c03::partial_belt_w2_l35"],
        bounds=dict(cipher=CIPHER, method="inductive step: arbitrary core state (symbolic IV, symbolic block position) -> piece 1 of length a (cursor anywhere in [0,b], empty piece included) -> piece 2 of SYMBOLIC length n: concatenation == keystream spec XOR, nothing beyond touched",
                    stream_types="Ofb (a and n symbolic), Ctr32BE (a=3, n symbolic) + concrete three-piece geometries for all six CTR flavours and BelT-CTR (quick); more (a, n) in thorough",
                    buffered_cfb="every reachable state established through the API (fresh object over a symbolic IV + a bytes, a in {0..b}, get_state -> from_state), then ONE call of SYMBOLIC length <= 2b+1 == CFB recurrence; no assumption on the representation of the exported pair; fresh object cut at a symbolic point == CFB recurrence; long calls at concrete geometry",
                    prefix="one-shot CFB / CFB-8 on m[..k], k symbolic, == prefix of the output on m"),
        outside=COMMON_OUTSIDE + ["pieces longer than 2b+1 bytes (covered by the block-level step C07)"],
        assumptions=["the wrapper's byte logic never sees the cipher width (it calls the core's block API); width independence of the core is C07"],
    ),
    "C09": dict(
        modules=["c09"],
        # exported state after feeding through the backend's *_inplace entry points (custom closure): the
        # recurrence harnesses compare iv_state() with the recurrence's chaining value
        also=["c02::ige_enc_b2_w2_n4_closure", "c02::ige_dec_b2_w3_n5_closure", "c02::cbc_dec_b2_w2_n4_closure", "c02::pcbc_enc_b2_w2_n4_closure",
              "c02::pcbc_dec_b2_w2_n4_closure", "c02::cbc_enc_b2_w2_n4_closure"],
        bounds=dict(cipher=CIPHER, method="run k blocks (k SYMBOLIC in [0,n]), export iv_state, import into a fresh instance over the same cipher, run the rest: equals the uninterrupted run; exported value == public chaining value computed from (IV, plaintext, ciphertext) only",
                    modes="CBC, PCBC, IGE, CFB, CFB-8, OFB (both directions), n=3..6, b in {2} (thorough 3,4)",
                    ctr="CTR flavours and BelT-CTR at a SYMBOLIC block position: iv_state == next counter block / D(s); fresh instance continues identically",
                    buffered_cfb="get_state / from_state at a SYMBOLIC byte cut, b in {2} (3,4)"),
        outside=COMMON_OUTSIDE,
        assumptions=[],
    ),
    "C10": dict(
        modules=["c10"],
        also=["c04::ctr32be_b16_w2_n3", "c04::ctr64le_b8_w3_n4", "c04::ctr128be_b32_w2_n3", "c06::belt_core_w2_n3"],
        bounds=dict(cipher=CIPHER, core="set_block_pos(k) / get_block_pos / generated blocks coherent for EVERY counter value k (c04/c06 harnesses)",
                    api="op sequences [seek, apply, current_pos] x3 on the public aliases with concrete byte geometry (start of stream, around 2^32 bytes, last blocks before the end; forward / backward / mid-block seeks; seek types u128, u64) and symbolic IV / key / data / cipher; same with a SYMBOLIC block index by positioning the core",
                    position_types="try_current_pos::<u32|u64|u128|usize|i32>: Ok(v) only with the exact position, Err whenever it does not fit",
                    kernels="SeekNum::{into_block_byte, from_block_byte} fully symbolic for 15 (type, counter, block size) combinations"),
        outside=COMMON_OUTSIDE + ["symbolic byte offsets through try_seek (makes every wrapper loop bound symbolic; replaced by concrete offsets + fully symbolic conversion kernels)",
                                  "negative i32 positions; positions beyond the keystream end (see C11 known finding)"],
        assumptions=["the wrapper forwards the block index opaquely to the core (the only arithmetic on it is covered by the kernels and the core contract)"],
    ),
    "C11": dict(
        modules=["c11"],
        also=["c04::ctr32le_b12_w2_n3", "c04::ctr64be_b24_w2_n3", "c04::ctr128le_b16_w2_n3", "c06::belt_core_w2_n3"],
        bounds=dict(cipher=CIPHER, remaining="remaining_blocks == 2^w-1-k exactly (or None when it does not fit usize) for EVERY position k (c04/c06)",
                    limit="start r in {1,2,3} blocks (+ off bytes) before the end, request length SYMBOLIC in [0, left+b+1]: Ok <=> fits; on Err buffer, byte position and block position unchanged; request ending exactly at the limit Ok, next byte Err; seek exactly to the end Ok, next byte Err",
                    injectivity="for all IV and i != j the counter blocks for positions i and j differ (real block-generation code, all six flavours, BelT via the blocks handed to E)"),
        outside=COMMON_OUTSIDE + ["histories that seek beyond the keystream end: KNOWN FINDING (dedicated kf_ harnesses)"],
        assumptions=[],
    ),
    "C12": dict(
        modules=["c12"],
        bounds=dict(cipher=CIPHER, forms="*_blocks in place vs *_blocks_b2b vs per-block *_block_b2b / *_block_inout; one-shot vs _b2b vs _inout; apply_keystream vs _b2b vs try_apply_keystream_inout; cts encrypt/decrypt vs _b2b (SYMBOLIC length); padded in place vs _b2b",
                    output_buffer="pre-filled with symbolic garbage", sizes="n=3..5 blocks, b in {2} (thorough 1,3,4), w in {1,2,3,4}"),
        outside=COMMON_OUTSIDE,
        assumptions=[],
    ),
    "C13": dict(
        modules=["c13"],
        also=["c08::buf_enc_step_b2_a1_n5", "c08::buf_dec_step_b2_a1_n5", "c03::cfb_enc_b2_w1_symlen7", "c03::cfb8_enc_b2_symlen5", "c01::rt_cts_cbc_cs3_b2_w2_l7", "c01::rt_cts_ecb_cs1_b2_w2_l7",
              "c05::cbc_cs1_b4_w1_l7", "c05::cbc_cs2_b4_w1_l4", "c05::cbc_cs3_b4_w1_l7", "c05::ecb_cs3_b4_w1_l7",
              # accepted inputs must not be refused: empty whole-block message through the padded API; remaining_blocks exact
              # (an under-reported remainder makes try_apply_keystream refuse / apply_keystream panic on a request that fits)
              "c01::rt_nopad_cbc_b2_w2_l0", "c01::rt_nopad_pcbc_b2_w2_l0", "c01::rt_nopad_ige_b2_w2_l0",
              "c04::ctr128le_b16_w2_n3", "c04::ctr128be_b32_w2_n3", "c04::ctr64be_b24_w2_n3", "c04::ctr32be_b16_w2_n3", "c06::belt_core_w2_n3"],
        bounds=dict(cipher=CIPHER, rejections="CTS L<b (SYMBOLIC L) in place and b2b, both directions; unequal lengths in *_blocks_b2b / one-shot _b2b / apply_keystream_b2b / cts _b2b (SYMBOLIC pairs); decrypt_padded[_b2b] with L mod b != 0 or short output; new_from_slices / new_from_slice with SYMBOLIC key and IV lengths for 27 public types: Err exactly when the contract is violated; all caller buffers bit-identical; cipher not invoked; chaining state / position unchanged",
                    no_panic="every harness of every property runs with Kani's panic, arithmetic-overflow, bounds and pointer checks; plus total drivers: stream ciphers at ANY block position with any request length, CTS for every length 0..=M incl. 1-byte blocks"),
        outside=COMMON_OUTSIDE + ["the convenience wrappers apply_keystream / seek / current_pos are DEFINED as try_*().unwrap() and documented to panic where the try_ form returns Err; 'never panics' is checked on the try_ forms",
                                  "invalid exported state (pos >= b) is excluded by the property itself"],
        assumptions=[],
    ),
    "C14": dict(
        modules=["c14"],
        bounds=dict(cipher=CIPHER, pairs="BufEncryptor == block-level CFB == one-shot CFB (both directions); OfbCore as encryptor == decryptor == keystream core == Ofb; CtrCore block-wise == Ctr* byte-level (six flavours, from offset 0 and after a seek); BeltCtrCore == BeltCtr; on n in {1,2,3,4} whole blocks CBC-CS1 == CBC-CS2 == cbc::{Encryptor,Decryptor}, CBC-CS3 == that with the last two blocks exchanged (one block: none), ECB variants == raw block en/decryption; new(key,iv) == new_from_slices == inner_iv_init(C::new(key), iv) for 21 types"),
        outside=COMMON_OUTSIDE,
        assumptions=[],
    ),
    "C15": dict(
        modules=["c15"],
        # "garbled" / "every later block changes" are existential statements (covers); the universal part is
        # that the decryptor IS the recurrence, so those recurrence harnesses are part of this check
        also=["c03::cfb8_dec_b2_l4_b2b", "c03::cfb8_dec_b3_l5_oneshot", "c02::pcbc_dec_b2_w2_n3_multi", "c02::ige_dec_b2_w2_n3_multi",
              "c02::cbc_dec_b2_w2_n3_multi", "c03::cfb_dec_b2_w2_n3_multi",
              "c02::pcbc_dec_b2_w2_n4_closure", "c02::cbc_dec_b2_w2_n4_closure", "c02::ige_dec_b2_w3_n5_closure", "c03::cfb_dec_b2_w2_n4_closure",
              # larger geometries of the same "decryptor == recurrence" statement (32-byte blocks, long buffered calls, wide backends)
              "c02::cbc_dec_b32_w2_n3_multi", "c08::buf_dec_long_b1_p1_n19", "c08::buf_dec_long_b2_p1_n12", "c02::cbc_dec_b1_w16_n12_multi", "c03::cfb_dec_b1_w16_n12_multi"],
        bounds=dict(cipher=CIPHER, method="two decryptions over the same permutation of c and c xor delta@j, delta != 0 symbolic; j enumerated (CBC/CFB/PCBC/IGE, n=4..5 blocks) or SYMBOLIC (CFB-8 byte index)",
                    claims="CBC: blocks <j equal, block j differs, block j+1 differs by exactly delta, later equal.  CFB: block j differs by exactly delta, j+1 differs, later equal.  CFB-8: byte j differs by delta, bytes after j+b equal.  PCBC/IGE: blocks <j equal, block j differs, and 'all later blocks differ' is satisfiable (it is not true of every permutation).  CTR/OFB/BelT: keystream independent of data and call schedule.  Causality: inputs equal up to block j (SYMBOLIC j) => outputs equal up to block j, all modes, widths 2 and 3"),
        outside=COMMON_OUTSIDE,
        assumptions=["'garbled' is read as 'differs' (provable from injectivity); 'every later block changes' for PCBC/IGE is existential because D(x^d) = D(x)^d is possible for some permutations"],
    ),
    "C16": dict(
        modules=["c16"],
        bounds=dict(cipher=CIPHER, method="history h1, clone (or second instance created the same way), then h2 on the original and h3 on the other in a SYMBOLIC order; outputs and states equal those of fresh instances replaying h1;h2 and h1;h3",
                    types="all Encryptor/Decryptor, OfbCore, BufEncryptor/BufDecryptor, byte-level aliases, CtrCore (hand-written Clone, symbolic position), six CTS types"),
        outside=COMMON_OUTSIDE + ["true concurrency (Kani is sequential; &mut self APIs only permit call interleaving)", "histories longer than 3 calls"],
        assumptions=[],
    ),
    "C17": dict(
        modules=["c17"],
        bounds=dict(debug="two objects with independent symbolic key, IV, position and processed data formatted with {:?} into a 200-byte sink: texts byte-identical; 20 types (every Encryptor/Decryptor, Buf*, OfbCore, CtrCore x6, BeltCtrCore)",
                    drop="object in MaybeUninit, symbolic IV / position / data, drop_in_place, storage read back: with a zero-sized cipher and padding-free instantiation every byte is 0 (buffered CFB: only the byte cursor may remain and images of two independent runs are identical); 24 types incl. the byte-level aliases"),
        outside=COMMON_OUTSIDE + ["Debug of the byte-level aliases: KNOWN FINDING (dedicated kf_ harnesses)", "cts types implement neither Debug nor Drop/zeroize",
                                  "that zeroize's volatile writes survive optimisation (outside a MIR-level model)"],
        assumptions=["feature zeroize enabled"],
    ),
}

NOT_APPLICABLE = {}
