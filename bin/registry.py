"""Per-property metadata: which harness modules decide it, stated bounds, what lies outside,
assumptions.  The harness lists themselves are discovered from harness/src/cNN*.rs
(names starting with t_ are thorough-only, kf_ are dedicated known-finding harnesses)."""

PROPS = {
    "C02": dict(
        modules=["c02"],
        bounds={
            "cipher": "every permutation of the block space (uninterpreted), every 2-byte key",
            "iv_data": "all values",
            "block_size": "quick: 2, 4; thorough adds 1, 3, 8, 16",
            "parallel_width": "quick: 1, 2, 3; thorough adds 4, 8",
            "blocks": "quick: 0, 3, 4; thorough: 3..5 and 9 (w=8: one full group + tail)",
            "feeding": "one multi-block call (parallel body + tail), one call per block, *_blocks_b2b into a dirty buffer, *_blocks_inout",
        },
        outside=["block sizes other than those instantiated (same generic code, N::USIZE only)",
                 "parallel widths other than those instantiated", "runs longer than 9 blocks (C07/C09 inductive step covers longer histories)"],
        assumptions=["decryptor inputs are arbitrary blocks (not produced by an encryptor)"],
    ),
}
PROPS["C03"] = dict(modules=["c03"])
PROPS["C04"] = dict(modules=["c04"])
PROPS["C05"] = dict(modules=["c05"])
PROPS["C07"] = dict(modules=["c07"])
PROPS["C06"] = dict(modules=["c06"])
for _p in ("C08","C09","C10","C11","C12","C13","C14","C15","C16"):
    PROPS[_p] = dict(modules=[_p.lower()])
PROPS["C10"]["also"] = ["c04::ctr32be_b8_w2_n3", "c04::ctr64le_b16_w2_n3", "c04::ctr128be_b16_w2_n3", "c06::belt_core_w2_n3"]
PROPS["C11"]["also"] = ["c04::ctr32le_b8_w2_n3", "c04::ctr64be_b16_w2_n3", "c04::ctr128le_b16_w2_n3", "c06::belt_core_w1_n2"]
NOT_APPLICABLE = {}
