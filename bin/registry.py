"""Per-property metadata: which harness modules decide it, stated bounds, what lies outside,
assumptions.  The harness lists themselves are discovered from harness/src/cNN*.rs
(names starting with t_ are thorough-only, kf_ are dedicated known-finding harnesses)."""

PROPS = {
    "C02": dict(
        modules=["c02"],
        bounds={
            "cipher": "every permutation of the block space (uninterpreted), every 2-byte key",
            "iv_data": "all values",
            "block_size": "quick: 2, 4; thorough adds 1, 3, 8, 16",
            "parallel_width": "quick: 1, 2, 3; thorough adds 4, 8",
            "blocks": "quick: 0, 3, 4; thorough: 3..5 and 9 (w=8: one full group + tail)",
            "feeding": "one multi-block call (parallel body + tail), one call per block, *_blocks_b2b into a dirty buffer, *_blocks_inout",
        },
        outside=["block sizes other than those instantiated (same generic code, N::USIZE only)",
                 "parallel widths other than those instantiated", "runs longer than 9 blocks (C07/C09 inductive step covers longer histories)"],
        assumptions=["decryptor inputs are arbitrary blocks (not produced by an encryptor)"],
    ),
}
NOT_APPLICABLE = {}
