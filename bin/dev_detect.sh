#!/bin/bash
# dev helper: run the quick check of the targeted property against each seeded defect
rm -rf /verif/.build/harness-snap && cp -r /verif/harness /verif/.build/harness-snap
export VERIF_HARNESS=/verif/.build/harness-snap
for n in "$@"; do python3 /verif/bin/seeded.py detect $n --tier quick >> /verif/.build/dev/detect.log 2>&1; done
