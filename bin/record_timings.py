#!/usr/bin/env python3
"""Record per-harness wall times from the evidence files of a thorough run into bin/timings.json
(used only to pick cheap seed-rotated extras for the quick tier)."""
import glob, json, os
V = os.path.dirname(os.path.dirname(os.path.abspath(__file__)))
out = {}
p = os.path.join(V, "bin", "timings.json")
if os.path.exists(p):
    out = json.load(open(p))
for f in glob.glob(os.path.join(V, "evidence", "*.json")):
    e = json.load(open(f))
    for s in e["coverage"]["samples"]:
        if s.get("verdict") == "pass" and s.get("wall_s") is not None:
            out[s["harness"]] = round(s["wall_s"], 1)
json.dump(out, open(p, "w"), indent=0, sort_keys=True)
print(len(out), "timings")
