#!/usr/bin/env python3
"""Regenerate /verif/MANIFEST.json from bin/registry.py (keeps it schema-valid at all times)."""
import json, os, sys
sys.path.insert(0, os.path.dirname(os.path.abspath(__file__)))
from registry import PROPS, NOT_APPLICABLE

VERIF = os.path.dirname(os.path.dirname(os.path.abspath(__file__)))
ids = [json.loads(l)["id"] for l in open(os.path.join(VERIF, "properties.jsonl"))]

CLAIM = {
 "C01": "Round trip dec(enc(m)) = m through mixed API paths (multi-block vs single-block, b2b, one-shot, buffered, padded incl. NoPadding/empty, byte stream in different cuts, seek-based), symbolic lengths for one-shot / CTS.",
 "C02": "CBC / PCBC / IGE output and exported chaining value equal the textbook recurrence written in the harness, both directions, decryptors on arbitrary ciphertext, every feeding kind incl. a custom closure over the backend.",
 "C03": "CFB / CFB-8 / OFB equal their recurrences (cipher type implements only the encryption traits); one-shot with symbolic length; buffered CFB from every reachable state (inductive step).",
 "C04": "CTR keystream block i = E(layout_F(IV, i)) for the six flavours at a SYMBOLIC block index over the whole counter range; get/set_block_pos, remaining_blocks, iv_state, single-block core API.",
 "C05": "Six CTS variants equal the NIST SP 800-38A addendum definition for every length in the stated ranges (all residues, L=b, L=kb), decrypt inverts, arbitrary-ciphertext decrypt equals the NIST decryption procedure.",
 "C06": "BelT-CTR: s0 = LE128(E(IV)), block i = E(LE(s0+i+1)) with symbolic E(IV) and symbolic position (wrap of s inside the query); byte-level alias.",
 "C07": "Inductive step: from an arbitrary chaining state one multi-block call of symbolic size k on a width-w cipher equals k single-block calls on a width-1 cipher, same exported state; hence independence of any batching.",
 "C08": "Inductive step for byte streams: arbitrary core state -> piece 1 -> piece 2 of symbolic length equals the keystream spec; buffered CFB from every reachable state; one-shot prefix preservation.",
 "C09": "Export at a symbolic cut, import into a fresh instance, continue: equals the uninterrupted run; exported value equals the public chaining value computed from (IV, plaintext, ciphertext).",
 "C10": "Seek / position coherence: core contract for every counter value, public-API op sequences at concrete byte geometry with everything else symbolic, every byte offset in a range (case split), fully symbolic SeekNum kernels.",
 "C11": "Exhaustion: remaining_blocks exact for every position; request accepted iff it fits (symbolic length near the limit), rejected requests leave data and position untouched; injectivity of position -> counter block; no keystream after far seeks.",
 "C12": "In-place == b2b == inout == per-block forms (dirty output buffers), same chaining state; CTS with symbolic length; padded forms.",
 "C13": "Rejections (Err, buffers bit-identical, state unchanged) for every listed contract violation with symbolic lengths; Kani's panic / overflow / bounds / pointer checks on every harness plus total drivers.",
 "C14": "Pairs of front-ends produce identical output and state for symbolic key / IV / message.",
 "C15": "Error propagation supports exactly as prescribed (provable parts asserted, existential parts as covers) plus decryptor == recurrence; causality with a symbolic prefix length; keystream independence of data.",
 "C16": "clone / clone_from / independently created instances: outputs and states equal fresh replays under a symbolic interleaving; no influence of an earlier instance with another key and the same IV.",
 "C17": "Debug text ({:?} and {:#?}) identical for two objects with independent symbolic state; storage bytes after drop_in_place all zero for padding-free instantiations over a zero-sized cipher.",
}

checks = []
for pid in ids:
    if pid not in PROPS:
        continue
    m = PROPS[pid]
    checks.append(dict(
        property_id=pid,
        quick_cmd=f"python3 bin/check.py {pid} --tier quick",
        thorough_cmd=f"python3 bin/check.py {pid} --tier thorough",
        evidence_file=f"evidence/{pid}.json",
        replay_cmd_template="python3 bin/check.py --replay {path}",
        engine="kani-uf",
        level_claimed=dict(
            category="model_checking",
            text=m.get("level_text", CLAIM.get(pid, "") + " Decided by bounded model checking of the compiled real code (Kani -> CBMC -> CaDiCaL): each harness "
                 "holds for every block cipher of the instantiated block size (uninterpreted permutation), key, IV, data, position and length within "
                 "the stated instantiations and sizes; unwinding assertions on; nothing is sampled; outside the bounds nothing is claimed."),
            design_ref=m.get("design_ref", "DESIGN.md section 3 (" + pid + ") and section 9"),
        ),
        level_note=m.get("level_note", "Trusted: Kani MIR->goto translation, CBMC/CaDiCaL, the ~400-line harness oracle and reference models. "
                        "Bounds (block sizes, widths, lengths) are listed in the evidence file; outside them nothing is claimed."),
        technique=m.get("technique", "SAT-based bounded model checking of the real Rust code (Kani/CBMC) against a reference model over an uninterpreted-permutation cipher"),
    ))
na = [dict(property_id=p, reason=NOT_APPLICABLE.get(p, "check not built yet in this tree (work in progress); no claim is made")) for p in ids if p not in PROPS]
man = dict(
    version=1,
    setup_cmd="python3 bin/setup.py",
    hooks=dict(
        guard="rustcrypto_block_modes_verif",
        enable="no source hooks are needed: all harnesses drive the public API from the external crate /verif/harness (path dependencies on /repo)",
        baseline_off_cmd="cd /repo && cargo test --workspace --no-fail-fast --offline",
        source_commits=[],
        add_only=True,
    ),
    engines=[dict(name="kani-uf", path="bin/check.py", serves_properties=[c["property_id"] for c in checks],
                  kind_free_text="Kani 0.68 / CBMC 6.11 / CaDiCaL bounded model checking of the real crates; block cipher = uninterpreted keyed permutation; oracle = textbook recurrences in harness/src/spec.rs")],
    checks=checks,
    not_applicable=na,
    notes="exit 0 = all harnesses decided and held; exit 1 = VIOLATION (replayed natively); exit 2 = inconclusive (timeout/OOM/unwinding/vacuity). VERIF_REPO=<dir> points the checks at another copy of the repository.",
)
json.dump(man, open(os.path.join(VERIF, "MANIFEST.json"), "w"), indent=1)
print("MANIFEST.json:", len(checks), "checks,", len(na), "not_applicable")
