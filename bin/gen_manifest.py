#!/usr/bin/env python3
"""Regenerate /verif/MANIFEST.json from bin/registry.py (keeps it schema-valid at all times)."""
import json, os, sys
sys.path.insert(0, os.path.dirname(os.path.abspath(__file__)))
from registry import PROPS, NOT_APPLICABLE

VERIF = os.path.dirname(os.path.dirname(os.path.abspath(__file__)))
ids = [json.loads(l)["id"] for l in open(os.path.join(VERIF, "properties.jsonl"))]

checks = []
for pid in ids:
    if pid not in PROPS:
        continue
    m = PROPS[pid]
    checks.append(dict(
        property_id=pid,
        quick_cmd=f"python3 bin/check.py {pid} --tier quick",
        thorough_cmd=f"python3 bin/check.py {pid} --tier thorough",
        evidence_file=f"evidence/{pid}.json",
        replay_cmd_template="python3 bin/check.py --replay {path}",
        engine="kani-uf",
        level_claimed=dict(
            category="model_checking",
            text=m.get("level_text", "Bounded model checking of the compiled real code (Kani -> CBMC -> CaDiCaL): each harness is decided "
                 "for every block cipher (uninterpreted permutation), key, IV, data, position and length within the stated "
                 "instantiations and sizes; unwinding assertions on; nothing is sampled."),
            design_ref=m.get("design_ref", "DESIGN.md section 3 " + pid),
        ),
        level_note=m.get("level_note", "Trusted: Kani MIR->goto translation, CBMC/CaDiCaL, the ~400-line harness oracle and reference models. "
                        "Bounds (block sizes, widths, lengths) are listed in the evidence file; outside them nothing is claimed."),
        technique=m.get("technique", "SAT-based bounded model checking of the real Rust code (Kani/CBMC) against a reference model over an uninterpreted-permutation cipher"),
    ))
na = [dict(property_id=p, reason=NOT_APPLICABLE.get(p, "check not built yet in this tree (work in progress); no claim is made")) for p in ids if p not in PROPS]
man = dict(
    version=1,
    setup_cmd="python3 bin/setup.py",
    hooks=dict(
        guard="rustcrypto_block_modes_verif",
        enable="no source hooks are needed: all harnesses drive the public API from the external crate /verif/harness (path dependencies on /repo)",
        baseline_off_cmd="cd /repo && cargo test --workspace --no-fail-fast --offline",
        source_commits=[],
        add_only=True,
    ),
    engines=[dict(name="kani-uf", path="bin/check.py", serves_properties=[c["property_id"] for c in checks],
                  kind_free_text="Kani 0.68 / CBMC 6.11 / CaDiCaL bounded model checking of the real crates; block cipher = uninterpreted keyed permutation; oracle = textbook recurrences in harness/src/spec.rs")],
    checks=checks,
    not_applicable=na,
    notes="exit 0 = all harnesses decided and held; exit 1 = VIOLATION (replayed natively); exit 2 = inconclusive (timeout/OOM/unwinding/vacuity). VERIF_REPO=<dir> points the checks at another copy of the repository.",
)
json.dump(man, open(os.path.join(VERIF, "MANIFEST.json"), "w"), indent=1)
print("MANIFEST.json:", len(checks), "checks,", len(na), "not_applicable")
