#!/usr/bin/env python3
"""Shared machinery: harness-crate generation, Kani invocation, log parsing, replay.

Everything here is deterministic: there is no sampling.  The deciding step for every harness
is CBMC's verdict (CaDiCaL) over all values of the harness' kani::any() inputs.
"""
import hashlib, json, os, re, shutil, signal, subprocess, sys, threading, time
from concurrent.futures import ThreadPoolExecutor

VERIF = os.path.dirname(os.path.dirname(os.path.abspath(__file__)))
HARNESS = os.environ.get("VERIF_HARNESS") or os.path.join(VERIF, "harness")  # VERIF_HARNESS: frozen copy for long dev runs
BUILD = os.path.join(VERIF, ".build")
LOGS_ROOT = os.path.join(BUILD, "logs")
REPLAYS = os.path.join(VERIF, "replays")
EVIDENCE = os.path.join(VERIF, "evidence")
KNOWN = os.path.join(VERIF, "known_findings.txt")


def repo_dir():
    return os.path.abspath(os.environ.get("VERIF_REPO", "/repo"))


def crate_dir():
    """Directory holding the generated Cargo.toml for the current ${VERIF_REPO}: one per repository
    path, so that runs against different copies of the repository (the real /repo, scratch worktrees
    with a seeded defect) never share a manifest.  The sources stay in /verif/harness/src."""
    r = repo_dir()
    default_h = os.path.join(VERIF, "harness")
    if r == "/repo" and HARNESS == default_h:
        name = "crate-main"
    else:
        name = "crate-" + hashlib.sha1((r + "|" + HARNESS).encode()).hexdigest()[:10]
    return os.path.join(BUILD, name)


def logs_dir():
    """Per (repository copy, harness copy) log directory: concurrent runs never share a log file."""
    d = os.path.join(LOGS_ROOT, os.path.basename(crate_dir()))
    os.makedirs(d, exist_ok=True)
    return d


def target_dir(worker=0):
    """One private cargo target directory per worker: `cargo kani --harness X` recompiles the
    harness crate for every harness (the filter is a compiler argument), and cargo serialises
    builds per target directory, so sharing one directory would serialise all harnesses."""
    r = repo_dir()
    root = os.path.join(BUILD, "target") if r == "/repo" else os.path.join(BUILD, "target-" + hashlib.sha1(r.encode()).hexdigest()[:10])
    # VERIF_WORKER_BASE: offset for concurrent dev runs on the same repository copy, so that two runs
    # never share a worker directory (each run deletes its goto outputs after every harness)
    if isinstance(worker, int):
        worker = worker + int(os.environ.get("VERIF_WORKER_BASE", "0") or 0)
    return os.path.join(root, f"w{worker}")


def base_env(worker=0):
    e = dict(os.environ)
    e["CARGO_NET_OFFLINE"] = "true"
    e["CARGO_TARGET_DIR"] = target_dir(worker)
    e.pop("RUSTFLAGS", None)
    return e


def clean_goto_outputs(worker):
    """Delete the per-harness goto binaries Kani leaves behind (they accumulate, several MB each)."""
    root = os.path.join(target_dir(worker), "kani")
    for dp, dn, fn in os.walk(root):
        if os.path.basename(dp) == "out" and "/build/" in dp:
            for f in fn:
                try:
                    os.remove(os.path.join(dp, f))
                except OSError:
                    pass


_gen_lock = threading.Lock()


def gen_manifest():
    """(Re)write harness/Cargo.toml with path dependencies on the repository's working tree."""
    with _gen_lock:
        os.makedirs(BUILD, exist_ok=True)
        os.makedirs(LOGS_ROOT, exist_ok=True)
        cd = crate_dir()
        os.makedirs(cd, exist_ok=True)
        tpl = open(os.path.join(HARNESS, "Cargo.toml.in")).read()
        txt = tpl.replace("@REPO@", repo_dir()).replace("@HARNESS@", HARNESS)
        p = os.path.join(cd, "Cargo.toml")
        if not os.path.exists(p) or open(p).read() != txt:
            open(p, "w").write(txt)
        lock_src = os.path.join(repo_dir(), "Cargo.lock")
        lock_dst = os.path.join(cd, "Cargo.lock")
        if os.path.exists(lock_src) and not os.path.exists(lock_dst):
            shutil.copy(lock_src, lock_dst)
        rg = os.path.join(HARNESS, "src", "replay_gen.rs")
        if not os.path.exists(rg):
            open(rg, "w").write("// (empty)\n")


# ---------------------------------------------------------------------------------------
# harness discovery (from the harness crate's source; cross-checked against `cargo kani list`
# by setup.py)

_DIRECT = re.compile(r"#\[kani::proof\]\s*(?:#\[[^\]]*\]\s*)*pub fn (\w+)\s*\(", re.S)
_STAMP = re.compile(r"^([a-z_0-9]+)!\(\s*([a-z_0-9A-Z]+)\s*,", re.M)


def discover():
    """Return {module: [harness names]} by scanning harness/src/cNN*.rs."""
    out = {}
    src = os.path.join(HARNESS, "src")
    for fn in sorted(os.listdir(src)):
        m = re.match(r"(c\d\d\w*)\.rs$", fn)
        if not m:
            continue
        mod = m.group(1)
        txt = open(os.path.join(src, fn)).read()
        names = []
        # direct harnesses: only those outside macro_rules bodies (macro bodies use $name)
        for mm in _DIRECT.finditer(txt):
            names.append(mm.group(1))
        for mm in _STAMP.finditer(txt):
            if mm.group(1) in ("macro_rules",):
                continue
            names.append(mm.group(2))
        seen = set()
        uniq = []
        for n in names:
            if n not in seen:
                seen.add(n)
                uniq.append(n)
        out[mod] = uniq
    return out


def tier_of(name):
    return "thorough" if name.startswith("t_") or name.startswith("kf_t_") else "quick"


def is_known_finding_harness(name):
    return name.startswith("kf_")


# ---------------------------------------------------------------------------------------
# running one harness

CHECK_LINE = re.compile(r"^\[(?P<id>.+?)\] line (?P<line>\d+) (?P<desc>.*): (?P<st>SUCCESS|FAILURE|UNDETERMINED|UNREACHABLE|ERROR)$")
HDR_LINE = re.compile(r"^(?P<file>\S+) function (?P<fn>.+)$")


class Result(dict):
    pass


def _kill_group(p):
    try:
        os.killpg(os.getpgid(p.pid), signal.SIGKILL)
    except Exception:
        pass


def _tree_rss_kb(pgid):
    tot = 0
    try:
        out = subprocess.run(["ps", "-eo", "pgid=,rss="], capture_output=True, text=True).stdout
        for ln in out.splitlines():
            a = ln.split()
            if len(a) == 2 and a[0] == str(pgid):
                tot += int(a[1])
    except Exception:
        pass
    return tot


def run_cmd_watch(cmd, log_path, timeout_s, mem_gb, cwd=None, env=None):
    """Run cmd in its own process group, with wall-clock and RSS caps. Returns (rc, status)."""
    t0 = time.time()
    cwd = cwd or crate_dir()
    with open(log_path, "w") as lf:
        p = subprocess.Popen(cmd, cwd=cwd, env=env or base_env(), stdout=lf, stderr=subprocess.STDOUT,
                             preexec_fn=os.setsid)
        status = "done"
        peak = 0
        while True:
            try:
                p.wait(timeout=5)
                break
            except subprocess.TimeoutExpired:
                pass
            rss = _tree_rss_kb(p.pid)
            peak = max(peak, rss)
            if time.time() - t0 > timeout_s:
                status = "timeout"
                _kill_group(p)
                p.wait()
                break
            if rss > mem_gb * 1024 * 1024:
                status = "oom"
                _kill_group(p)
                p.wait()
                break
    return p.returncode, status, time.time() - t0, peak


def kani_cmd(full_name, playback=False):
    mod = full_name.split("::")[0]
    cmd = ["cargo", "kani", "--no-default-features", "--features", mod, "--harness", full_name, "--exact", "--no-assertion-reach-checks"]
    if playback:
        cmd += ["-Z", "concrete-playback", "--concrete-playback=print"]
    else:
        cmd += ["--output-format", "old"]
    return cmd


def parse_log(path):
    """Parse a `--output-format old` Kani/CBMC log."""
    r = dict(decided=False, checks=0, failed=[], covers_sat=[], covers_unsat=[], unwinding_fail=[],
             capacity_fail=False, precondition_fail=None, undetermined=[], repo_functions=[], stats={}, compile_error=False,
             cbmc_error=False, unsupported_reached=[])
    fns = set()
    in_results = False
    symex = solver = 0.0
    try:
        lines = open(path, errors="replace").read().splitlines()
    except FileNotFoundError:
        return r
    repo = repo_dir().rstrip("/") + "/"
    for ln in lines:
        if ln.startswith("** Results:"):
            in_results = True
            continue
        if ln.startswith("error: could not compile") or ln.startswith("error[E"):
            r["compile_error"] = True
        if "Status: ERROR" in ln or ln.startswith("CBMC failed") or "out of memory" in ln.lower():
            r["cbmc_error"] = True
        m = re.match(r"^Runtime Symex: ([\d.e+-]+)s", ln)
        if m:
            symex += float(m.group(1))
        m = re.match(r"^Runtime Solver: ([\d.e+-]+)s", ln)
        if m:
            solver += float(m.group(1))
        m = re.match(r"^Generated (\d+) VCC\(s\), (\d+) remaining after simplification", ln)
        if m:
            r["stats"]["vccs"] = int(m.group(1))
            r["stats"]["vccs_remaining"] = int(m.group(2))
        m = re.match(r"^(\d+) variables, (\d+) clauses", ln)
        if m:
            r["stats"]["variables"] = max(r["stats"].get("variables", 0), int(m.group(1)))
            r["stats"]["clauses"] = max(r["stats"].get("clauses", 0), int(m.group(2)))
        m = re.match(r"^size of program expression: (\d+) steps", ln)
        if m:
            r["stats"]["program_steps"] = int(m.group(1))
        m = re.match(r"^\*\* (\d+) of (\d+) failed", ln)
        if m:
            r["decided"] = True
            r["stats"]["checks_failed_raw"] = int(m.group(1))
            r["checks"] = int(m.group(2))
        if in_results:
            h = HDR_LINE.match(ln)
            if h and h.group("file").startswith(repo):
                fns.add(h.group("file")[len(repo):] + " :: " + _short_fn(h.group("fn")))
            c = CHECK_LINE.match(ln)
            if c:
                cid, desc, st = c.group("id"), c.group("desc"), c.group("st")
                kind = cid.rsplit(".", 2)[-2] if cid.count(".") >= 2 else ""
                rec = dict(id=cid, line=int(c.group("line")), desc=desc)
                if kind == "cover":
                    (r["covers_sat"] if st == "FAILURE" else r["covers_unsat"]).append(rec)
                elif st == "FAILURE":
                    if kind == "unwind" or "unwinding assertion" in desc:
                        r["unwinding_fail"].append(rec)
                    elif "oracle capacity" in desc:
                        r["capacity_fail"] = True
                    elif "harness precondition" in desc:
                        r["precondition_fail"] = desc
                    elif "is not currently supported by Kani" in desc or kind == "unsupported_construct":
                        r["unsupported_reached"].append(rec)
                    else:
                        r["failed"].append(rec)
                elif st in ("UNDETERMINED", "ERROR"):
                    r["undetermined"].append(rec)
    r["stats"]["symex_s"] = round(symex, 2)
    r["stats"]["solver_s"] = round(solver, 2)
    r["repo_functions"] = sorted(fns)
    return r


def _short_fn(s):
    # strip typenum noise: cipher::typenum::UInt<...> chains -> "_"
    prev = None
    while prev != s:
        prev = s
        s = re.sub(r"cipher::typenum::UInt<[^<>]*>", "N", s)
        s = re.sub(r"cipher::typenum::(UTerm|B0|B1)", "N", s)
    return s[:160]


def classify(pr, status):
    """verdict in {pass, fail, error}; error = inconclusive / harness problem."""
    if status != "done":
        return "error", status
    if pr["compile_error"]:
        return "error", "compile error"
    if not pr["decided"]:
        return "error", "no verdict in log" + (" (CBMC error)" if pr["cbmc_error"] else "")
    if pr["capacity_fail"]:
        return "error", "oracle capacity exceeded"
    if pr.get("precondition_fail"):
        return "error", pr["precondition_fail"]
    if pr["unwinding_fail"]:
        return "error", "unwinding assertion failed: " + pr["unwinding_fail"][0]["id"]
    if pr["undetermined"]:
        return "error", "undetermined checks"
    if pr["unsupported_reached"]:
        return "error", "unsupported construct reachable: " + pr["unsupported_reached"][0]["desc"][:80]
    if pr["failed"]:
        return "fail", pr["failed"][0]["desc"]
    if pr["covers_unsat"]:
        return "error", "unsatisfied cover (vacuity): line %d %s" % (pr["covers_unsat"][0]["line"], pr["covers_unsat"][0]["desc"])
    if not pr["covers_sat"]:
        return "error", "no reachability cover in harness"
    return "pass", ""


def run_harness(mod, name, timeout_s, mem_gb, tag="", worker=0):
    full = f"{mod}::{name}"
    log = os.path.join(logs_dir(), f"{mod}-{name}{tag}.log")
    rc, status, wall, peak = run_cmd_watch(kani_cmd(full), log, timeout_s, mem_gb, env=base_env(worker))
    clean_goto_outputs(worker)
    pr = parse_log(log)
    verdict, why = classify(pr, status)
    return Result(module=mod, name=name, full=full, log=log, rc=rc, status=status, wall_s=round(wall, 1),
                  peak_rss_mb=peak // 1024, verdict=verdict, why=why, parsed=pr)


def run_many(items, jobs, timeout_s, mem_gb, progress=True):
    """items: list of (mod, name). Returns list of Result in the same order."""
    import queue
    gen_manifest()
    res = [None] * len(items)
    lock = threading.Lock()
    done = [0]
    q = queue.Queue()
    for i in range(len(items)):
        q.put(i)

    def worker(w):
        while True:
            try:
                i = q.get_nowait()
            except queue.Empty:
                return
            mod, name = items[i]
            r = run_harness(mod, name, timeout_s, mem_gb, worker=w)
            if r["verdict"] == "error" and r["why"].startswith("no verdict") and not r["parsed"]["compile_error"]:
                r2 = run_harness(mod, name, timeout_s, mem_gb, tag="-retry", worker=w)
                r2["retried"] = True
                r = r2
            res[i] = r
            with lock:
                done[0] += 1
                if progress:
                    st = r["parsed"]["stats"]
                    print(f"  [{done[0]}/{len(items)}] {r['full']}: {r['verdict']}"
                          f"{' (' + r['why'] + ')' if r['why'] else ''}  wall={r['wall_s']}s symex={st.get('symex_s')}s "
                          f"sat={st.get('solver_s')}s rss={r['peak_rss_mb']}MB", flush=True)

    ths = [threading.Thread(target=worker, args=(w,)) for w in range(min(jobs, len(items)))]
    for t in ths:
        t.start()
    for t in ths:
        t.join()
    return res


# ---------------------------------------------------------------------------------------
# concrete playback

TEST_RE = re.compile(r"```\s*\n(?P<body>.*?#\[test\].*?)```", re.S)


def extract_playback(mod, name, timeout_s, mem_gb):
    """Re-run a failing harness with concrete playback; return the generated unit test text or None."""
    full = f"{mod}::{name}"
    log = os.path.join(logs_dir(), f"{mod}-{name}-playback.log")
    rc, status, wall, peak = run_cmd_watch(kani_cmd(full, playback=True), log, timeout_s, mem_gb, env=base_env("pb"))
    txt = open(log, errors="replace").read()
    # one ``` block per failed check AND per satisfied cover, in no fixed order: take the first block
    # that belongs to a failed check (not to a cover)
    blocks = [m.group("body") for m in TEST_RE.finditer(txt)]
    for b in blocks:
        if "Check for `cover`" not in b:
            return b, status
    if blocks:
        return blocks[0], status
    i = txt.find("#[test]")
    if i < 0:
        return None, status
    j = txt.find("\n}\n", i)
    return txt[i:j + 3], status


def write_replay_file(pid, mod, name, test_src, failed, tier):
    os.makedirs(REPLAYS, exist_ok=True)
    path = os.path.join(REPLAYS, f"{pid}-{mod}-{name}.rs")
    hdr = [f"// property={pid} harness={mod}::{name} tier={tier}",
           f"// repo={repo_dir()}",
           "// failed checks (solver verdict):"]
    for f in failed[:10]:
        hdr.append(f"//   line {f['line']}: {f['desc']}")
    hdr.append(f"// module={mod}")
    open(path, "w").write("\n".join(hdr) + "\n" + (test_src or "// (no concrete values extracted)\n"))
    return path


def run_replay_file(path, release=False, timeout_s=1800):
    """Inject the replay test into the harness crate and run it natively against the real crates.
    Returns (reproduced: bool|None, log_path)."""
    gen_manifest()
    txt = open(path).read()
    m = re.search(r"^// module=(\w+)", txt, re.M)
    t = re.search(r"fn (kani_concrete_playback_\w+)", txt)
    if not m or not t:
        return None, None
    mod, test = m.group(1), t.group(1)
    body = "\n".join(l for l in txt.splitlines() if not l.startswith("//"))
    gen = os.path.join(HARNESS, "src", "replay_gen.rs")
    with _gen_lock:
        open(gen, "w").write(f"#[cfg(test)]\nmod replay_gen {{\n    use crate::{mod}::*;\n{body}\n}}\n")
    log = os.path.join(logs_dir(), f"replay-{os.path.basename(path)}{'-release' if release else ''}.log")
    env = base_env("replay-rel" if release else "replay")
    cmd = ["cargo", "kani", "playback", "-Z", "concrete-playback", "--no-default-features", "-F", mod]
    if release:
        # `cargo kani playback` has no --release: give the dev/test profiles release settings instead
        for prof in ("DEV", "TEST"):
            env[f"CARGO_PROFILE_{prof}_OPT_LEVEL"] = "3"
            env[f"CARGO_PROFILE_{prof}_DEBUG_ASSERTIONS"] = "false"
            env[f"CARGO_PROFILE_{prof}_OVERFLOW_CHECKS"] = "false"
    cmd += ["--", test]
    try:
        rc, status, wall, peak = run_cmd_watch(cmd, log, timeout_s, 16, env=env)
    finally:
        with _gen_lock:
            open(gen, "w").write("// (empty)\n")
    out = open(log, errors="replace").read()
    if status != "done":
        return None, log
    if re.search(r"test result: FAILED", out) or re.search(r"panicked at", out):
        return True, log
    if re.search(r"test result: ok\. 1 passed", out):
        return False, log
    return None, log


# ---------------------------------------------------------------------------------------
# known findings file

def load_known():
    """known: property=<id> harness=<mod::name> <text>   |   fixed: property=<id> <commit> <text>"""
    known, fixed = [], []
    if os.path.exists(KNOWN):
        for ln in open(KNOWN):
            ln = ln.strip()
            if not ln or ln.startswith("#"):
                continue
            m = re.match(r"known:\s+property=(\w+)\s+harness=(\S+)\s+(.*)$", ln)
            if m:
                known.append(dict(property=m.group(1), harness=m.group(2), text=m.group(3)))
                continue
            m = re.match(r"fixed:\s+property=(\w+)\s+(\S+)\s+(.*)$", ln)
            if m:
                fixed.append(dict(property=m.group(1), commit=m.group(2), text=m.group(3)))
    return known, fixed


def tool_versions():
    v = {}
    try:
        v["kani"] = subprocess.run(["cargo", "kani", "--version"], capture_output=True, text=True).stdout.strip()
        v["cbmc"] = subprocess.run(["cbmc", "--version"], capture_output=True, text=True).stdout.strip()
    except Exception:
        pass
    v["sat"] = "CaDiCaL (CBMC built-in default)"
    return v


def repo_state():
    r = repo_dir()
    try:
        head = subprocess.run(["git", "-C", r, "rev-parse", "HEAD"], capture_output=True, text=True).stdout.strip()
        dirty = subprocess.run(["git", "-C", r, "status", "--porcelain", "--untracked-files=no"], capture_output=True, text=True).stdout.strip()
        return dict(path=r, head=head, dirty=bool(dirty))
    except Exception:
        return dict(path=r)
