#!/usr/bin/env python3
"""check.py <PROPERTY> [--tier quick|thorough] [--only REGEX] [--jobs N]
   check.py --replay <path>
   check.py --list

Decides one property of /verif/properties.jsonl by bounded model checking (Kani/CBMC/CaDiCaL)
of the real code in ${VERIF_REPO:-/repo}, rebuilt from its current working tree.

exit 0  every harness was decided and held (KNOWN-FINDING lines allowed)
exit 1  a violation was found:  VIOLATION property=<id> replay=<path>
exit 2  inconclusive / harness error (timeout, OOM, unwinding assertion, oracle capacity,
        unsatisfied cover, counter-example that does not reproduce natively)
"""
import argparse, json, os, re, sys, time

sys.path.insert(0, os.path.dirname(os.path.abspath(__file__)))
import vlib
from registry import PROPS

CAPS = {  # per-harness wall-clock cap (s), RSS cap (GB), workers
    "quick": dict(timeout=int(os.environ.get("VERIF_HARNESS_TIMEOUT", 900)), mem=14, jobs=12),
    "thorough": dict(timeout=int(os.environ.get("VERIF_HARNESS_TIMEOUT", 3600)), mem=20, jobs=10),
}


def select(pid, tier, only=None):
    meta = PROPS[pid]
    disc = vlib.discover()
    items = []
    for mod in meta["modules"]:
        for name in disc.get(mod, []):
            t = vlib.tier_of(name)
            if tier == "quick" and t != "quick":
                continue
            items.append((mod, name))
    for full in meta.get("also", []):
        mod, name = full.split("::")
        if name not in disc.get(mod, []):
            print(f"registry error: {full} not found in harness sources", file=sys.stderr)
            sys.exit(2)
        if tier == "quick" and vlib.tier_of(name) != "quick":
            continue
        items.append((mod, name))
    if tier == "quick" and not only:
        items += seeded_extras(pid, items, disc)
    if only:
        rx = re.compile(only)
        items = [it for it in items if rx.search("::".join(it))]
    return items


EXTRA_PER_QUICK = 2
EXTRA_MAX_WALL_S = 60


def seeded_extras(pid, items, disc):
    """VERIF_SEED rotates which thorough-only harnesses a quick run adds to its fixed core set (no verdict
    depends on the seed: every harness is decided for all its inputs; the seed only widens, over
    repeated runs, the set of instantiations a quick run looks at).  Only harnesses whose recorded
    thorough-tier wall time (bin/timings.json) is small are eligible."""
    import random
    tpath = os.path.join(os.path.dirname(os.path.abspath(__file__)), "timings.json")
    if not os.path.exists(tpath):
        return []
    try:
        tim = json.load(open(tpath))
    except Exception:
        return []
    seed = int(os.environ.get("VERIF_SEED", "0") or 0)
    have = set(items)
    pool = []
    for mod in PROPS[pid]["modules"]:
        for name in disc.get(mod, []):
            full = f"{mod}::{name}"
            if vlib.tier_of(name) == "thorough" and not vlib.is_known_finding_harness(name) and (mod, name) not in have:
                w = tim.get(full)
                if w is not None and w <= EXTRA_MAX_WALL_S:
                    pool.append((mod, name))
    pool.sort()
    rnd = random.Random(f"{pid}-{seed}")
    rnd.shuffle(pool)
    return pool[:EXTRA_PER_QUICK]


def describe(name):
    """Human-readable instantiation from the naming convention (b<block size> w<width> n<blocks> ...)."""
    parts = []
    for tok in name.split("_"):
        m = re.fullmatch(r"b(\d+)", tok)
        if m:
            parts.append(f"block size {m.group(1)}")
        m = re.fullmatch(r"w(\d+)", tok)
        if m:
            parts.append(f"cipher parallel width {m.group(1)}")
        m = re.fullmatch(r"n(\d+)", tok)
        if m:
            parts.append(f"{m.group(1)} blocks")
        m = re.fullmatch(r"l(\d+)", tok)
        if m:
            parts.append(f"length up to {m.group(1)} bytes")
    return ", ".join(parts)


def main():
    ap = argparse.ArgumentParser()
    ap.add_argument("property", nargs="?")
    ap.add_argument("--tier", default=os.environ.get("VERIF_TIER", "quick"), choices=["quick", "thorough"])
    ap.add_argument("--only")
    ap.add_argument("--jobs", type=int)
    ap.add_argument("--replay")
    ap.add_argument("--list", action="store_true")
    ap.add_argument("--no-evidence", action="store_true")
    a = ap.parse_args()

    if a.list:
        disc = vlib.discover()
        for pid, meta in PROPS.items():
            for tier in ("quick", "thorough"):
                print(pid, tier, len(select(pid, tier)))
        return 0
    if a.replay:
        return replay(a.replay)
    pid = a.property
    if pid not in PROPS:
        print("unknown property", pid, file=sys.stderr)
        return 2
    seed = int(os.environ.get("VERIF_SEED", "0") or 0)
    caps = CAPS[a.tier]
    jobs = a.jobs or caps["jobs"]
    t0 = time.time()
    items = select(pid, a.tier, a.only)
    if not items:
        print("no harnesses selected", file=sys.stderr)
        return 2
    print(f"[{pid}] tier={a.tier} repo={vlib.repo_dir()} harnesses={len(items)} jobs={jobs}", flush=True)
    results = vlib.run_many(items, jobs, caps["timeout"], caps["mem"])
    known, fixed = vlib.load_known()
    known_h = {k["harness"]: k for k in known if k["property"] == pid}

    fails = [r for r in results if r["verdict"] == "fail"]
    errors = [r for r in results if r["verdict"] == "error"]
    passes = [r for r in results if r["verdict"] == "pass"]
    exit_code = 0
    violations = []
    known_hits = []
    for r in fails:
        if r["full"] in known_h:
            k = known_h[r["full"]]
            known_hits.append(k)
            print(f"KNOWN-FINDING: property={pid} {k['text']}  [harness {r['full']}: {r['why']}]")
        else:
            violations.append(r)
    # a dedicated known-finding harness that now passes is fine (defect gone) -- nothing printed.
    replay_info = []
    if violations:
        # replay the cheapest failing harness natively before reporting
        violations.sort(key=lambda r: r["wall_s"])
        v = violations[0]
        print(f"[{pid}] solver reports a failed assertion in {v['full']}: {v['why']}; extracting concrete values ...", flush=True)
        # concrete playback is ~10x slower than the plain run: budget it from the harness' own cost
        pb_cap = int(min(caps["timeout"] * 4, max(600, 12 * v["wall_s"])))
        test_src, st = vlib.extract_playback(v["module"], v["name"], pb_cap, caps["mem"] + 6)
        path = vlib.write_replay_file(pid, v["module"], v["name"], test_src, v["parsed"]["failed"], a.tier)
        reproduced = None
        if test_src:
            reproduced, rlog = vlib.run_replay_file(path)
            replay_info.append(dict(harness=v["full"], path=path, reproduced_dev=reproduced, log=rlog))
            if reproduced:
                rel, rlog2 = vlib.run_replay_file(path, release=True)
                replay_info[-1]["reproduced_release"] = rel
        if reproduced is False:
            print(f"[{pid}] counter-example for {v['full']} did NOT reproduce natively -> harness/oracle problem, not reported as violation", flush=True)
            exit_code = 2
        else:
            note = "" if reproduced else " (concrete values could not be extracted/replayed; solver verdict stands)"
            for r in violations:
                print(f"  failing harness: {r['full']}: {r['why']}")
            print(f"VIOLATION property={pid} replay={path}{note}")
            exit_code = 1
    if errors and exit_code == 0:
        exit_code = 2
    for r in errors:
        print(f"INCONCLUSIVE harness={r['full']}: {r['why']} (log {r['log']})")

    wall = time.time() - t0
    if not a.no_evidence:
        write_evidence(pid, a.tier, seed, results, known_hits, violations, replay_info, wall, a.only)
    print(f"[{pid}] {len(passes)} held, {len(fails)} failed ({len(known_hits)} known), {len(errors)} inconclusive; "
          f"wall {wall:.0f}s; exit {exit_code}", flush=True)
    return exit_code


def write_evidence(pid, tier, seed, results, known_hits, violations, replay_info, wall, only):
    meta = PROPS[pid]
    samples = []
    fnset = set()
    nontrivial = 0
    symex = solver = 0.0
    vccs = 0
    for r in results:
        st = r["parsed"]["stats"]
        fnset.update(r["parsed"]["repo_functions"])
        symex += st.get("symex_s", 0)
        solver += st.get("solver_s", 0)
        vccs += st.get("vccs_remaining", 0)
        nt = r["verdict"] in ("pass", "fail") and len(r["parsed"]["covers_sat"]) > 0 and st.get("vccs_remaining", 0) > 0
        if nt:
            nontrivial += 1
        samples.append(dict(
            harness=r["full"], tier=vlib.tier_of(r["name"]), instantiation=describe(r["name"]),
            verdict=r["verdict"], why=r["why"], checks=r["parsed"]["checks"],
            covers_satisfied=len(r["parsed"]["covers_sat"]),
            vccs_generated=st.get("vccs"), vccs_after_simplification=st.get("vccs_remaining"),
            sat_variables=st.get("variables"), sat_clauses=st.get("clauses"),
            symex_s=st.get("symex_s"), solver_s=st.get("solver_s"), wall_s=r["wall_s"], peak_rss_mb=r["peak_rss_mb"],
            repo_functions_encoded=len(r["parsed"]["repo_functions"]),
        ))
    ev = dict(
        property_id=pid, tier=tier, seed=seed, level="model_checking",
        coverage=dict(
            evaluations=len([r for r in results if r["verdict"] in ("pass", "fail")]),
            distinct_nontrivial=nontrivial,
            rule="one evaluation = one Kani proof harness decided by CBMC/CaDiCaL for ALL values of its symbolic inputs "
                 "(cipher = uninterpreted permutation, key, IV, data, positions, lengths within the stated bounds); "
                 "harnesses are distinct by (code path, mode, direction, block size, parallel width, geometry); a harness counts as "
                 "non-trivial when its reachability cover(s) were satisfied and at least one verification condition "
                 "survived CBMC's simplifier and went to the SAT solver",
            samples=samples,
            harnesses_selected=len(results),
            harnesses_inconclusive=len([r for r in results if r["verdict"] == "error"]),
            functions_encoded=sorted(fnset),
            queries_discharged=sum(1 for r in results if r["verdict"] == "pass"),
            total_vccs_to_solver=vccs,
            symex_seconds=round(symex, 1), solver_seconds=round(solver, 1),
            bounds=meta.get("bounds", {}), outside_bounds=meta.get("outside", []),
            known_findings_reported=[k["text"] for k in known_hits],
            replays=replay_info,
            filter=only,
            exhaustive=False,
            tool_versions=vlib.tool_versions(), repo=vlib.repo_state(),
        ),
        assumptions=meta.get("assumptions", []) + COMMON_ASSUMPTIONS,
        wall_s=round(wall, 1),
        violations=len(violations),
    )
    os.makedirs(vlib.EVIDENCE, exist_ok=True)
    with open(os.path.join(vlib.EVIDENCE, f"{pid}.json"), "w") as f:
        json.dump(ev, f, indent=1)


COMMON_ASSUMPTIONS = [
    "Kani 0.68 MIR->goto translation and CBMC 6.11 / CaDiCaL are sound",
    "block cipher modelled as an uninterpreted keyed permutation (fresh output constrained by x=x_i <=> y=y_i): sound and complete for 'every block cipher'",
    "Kani's x86_64 model (64-bit usize), debug assertions and overflow checks on; features zeroize + block-padding enabled",
    "unwinding assertions on: a too-small loop bound is reported as inconclusive, never as success",
]


def replay(path):
    if not os.path.exists(path):
        print("no such replay file", path, file=sys.stderr)
        return 2
    txt = open(path).read()
    m = re.search(r"^// property=(\w+) harness=(\S+)", txt, re.M)
    pid = m.group(1) if m else "?"
    rep, log = vlib.run_replay_file(path)
    if rep:
        print(f"VIOLATION property={pid} replay={path}")
        print(f"(native replay failed as predicted; log {log})")
        return 1
    if rep is False:
        print(f"replay passed natively: the violation does not reproduce on {vlib.repo_dir()} (log {log})")
        return 0
    print(f"replay could not be run (log {log})")
    return 2


if __name__ == "__main__":
    sys.exit(main())
