#!/bin/bash
# dev helper: run several property checks one after another, logs under .build/dev/
# usage: bin/dev_seq.sh <tier> C03 C04 ...
tier=$1; shift
mkdir -p /verif/.build/dev
for p in "$@"; do
  python3 /verif/bin/check.py $p --tier $tier --no-evidence > /verif/.build/dev/$p-$tier.log 2>&1
  echo "$p exit $?" >> /verif/.build/dev/seq.log
done
