#!/usr/bin/env python3
"""Seeded-defect bookkeeping (self-validation of the checks; not part of any claim).

  seeded.py import <PID> <k> <name>     copy /tmp/wt-out/<PID>/{mut<k>.diff,demo<k>.rs,meta<k>.json} to seeded/<name>/
  seeded.py confirm <name>              in a scratch worktree: patch applies, existing suite passes with it,
                                        demo fails with it, demo passes without it  -> meta.json["confirmed"]
  seeded.py detect <name> [--tier T] [--props C05,C14]
                                        run the property checks against a scratch worktree with the patch applied
                                        (VERIF_REPO), record exit codes / failing harnesses -> meta.json["detection"]
Scratch worktrees live under /tmp/seeded-wt and are removed afterwards.
"""
import json, os, re, shutil, subprocess, sys, time

VERIF = os.path.dirname(os.path.dirname(os.path.abspath(__file__)))
SEEDED = os.path.join(VERIF, "seeded")
WT_ROOT = "/tmp/seeded-wt"


def sh(cmd, cwd=None, env=None, timeout=3600):
    e = dict(os.environ)
    e["CARGO_NET_OFFLINE"] = "true"
    if env:
        e.update(env)
    r = subprocess.run(cmd, shell=True, cwd=cwd, env=e, stdout=subprocess.PIPE, stderr=subprocess.STDOUT, text=True, timeout=timeout)
    return r.returncode, r.stdout


def worktree(name):
    os.makedirs(WT_ROOT, exist_ok=True)
    d = os.path.join(WT_ROOT, name)
    if os.path.exists(d):
        sh(f"git -C /repo worktree remove --force {d}")
        shutil.rmtree(d, ignore_errors=True)
    sh("git -C /repo worktree prune")
    rc, out = sh(f"git -C /repo worktree add -q --detach {d} HEAD")
    if rc:
        raise SystemExit(out)
    return d


def drop(d):
    sh(f"git -C /repo worktree remove --force {d}")
    shutil.rmtree(d, ignore_errors=True)


def load(name):
    return json.load(open(os.path.join(SEEDED, name, "meta.json")))


def save(name, meta):
    json.dump(meta, open(os.path.join(SEEDED, name, "meta.json"), "w"), indent=1)


def cmd_import(pid, k, name):
    src = f"/tmp/wt-out/{pid}"
    dst = os.path.join(SEEDED, name)
    os.makedirs(dst, exist_ok=True)
    shutil.copy(f"{src}/mut{k}.diff", f"{dst}/patch.diff")
    shutil.copy(f"{src}/demo{k}.rs", f"{dst}/demo.rs")
    meta = {}
    mp = f"{src}/meta{k}.json"
    if os.path.exists(mp):
        try:
            meta = json.load(open(mp))
        except Exception as e:
            meta = {"raw_meta_unparsable": str(e)}
    meta.setdefault("property", pid)
    meta["breaks_property"] = meta.get("property", pid)
    meta["origin"] = f"independent sub-agent given only the text of {pid} and a scratch worktree"
    meta.pop("verification_log", None)
    save(name, meta)
    print("imported", name)


def cmd_confirm(name):
    meta = load(name)
    d = os.path.join(SEEDED, name)
    crate = meta.get("demo_crate") or meta.get("crate")
    wt = worktree("confirm-" + name)
    res = {}
    try:
        rc, out = sh(f"git apply --check {d}/patch.diff && git apply {d}/patch.diff", cwd=wt)
        res["patch_applies"] = rc == 0
        if rc:
            res["error"] = out[-500:]
        else:
            rc, out = sh("cargo test --workspace --no-fail-fast --offline 2>&1 | tail -400", cwd=wt)
            failed = re.findall(r"test result: FAILED|error(?:\[E\d+\])?: ", out)
            oks = len(re.findall(r"test result: ok", out))
            res["suite_passes_with_patch"] = (not failed) and oks >= 20
            res["suite_ok_groups"] = oks
            os.makedirs(f"{wt}/{crate}/tests", exist_ok=True)
            shutil.copy(f"{d}/demo.rs", f"{wt}/{crate}/tests/seeded_demo.rs")
            feat = meta.get("demo_features")
            fflag = f"--features {feat} " if feat else ""
            rc1, out1 = sh(f"cargo test -p {crate} {fflag}--offline --test seeded_demo 2>&1 | tail -60", cwd=wt)
            res["demo_fails_with_patch"] = "test result: FAILED" in out1
            sh(f"git apply -R {d}/patch.diff", cwd=wt)
            rc2, out2 = sh(f"cargo test -p {crate} {fflag}--offline --test seeded_demo 2>&1 | tail -60", cwd=wt)
            res["demo_passes_without_patch"] = ("test result: ok" in out2) and ("FAILED" not in out2)
            res["ran"] = [f"git apply patch.diff; cargo test --workspace --no-fail-fast --offline",
                          f"cp demo.rs {crate}/tests/seeded_demo.rs; cargo test -p {crate} {fflag}--offline --test seeded_demo (with and without the patch)"]
    finally:
        drop(wt)
    meta["confirmed"] = res
    meta["confirmed_at"] = time.strftime("%Y-%m-%d")
    save(name, meta)
    ok = all(res.get(k) for k in ("patch_applies", "suite_passes_with_patch", "demo_fails_with_patch", "demo_passes_without_patch"))
    print(name, "CONFIRMED" if ok else "NOT CONFIRMED", res)
    return 0 if ok else 1


def cmd_detect(name, tier, props):
    meta = load(name)
    d = os.path.join(SEEDED, name)
    props = props or [meta.get("breaks_property")]
    wt = worktree("detect-" + name)
    det = meta.get("detection", {})
    try:
        rc, out = sh(f"git apply {d}/patch.diff", cwd=wt)
        if rc:
            raise SystemExit(out)
        for p in props:
            t0 = time.time()
            rc, out = sh(f"python3 {VERIF}/bin/check.py {p} --tier {tier} --no-evidence", cwd=VERIF, env={"VERIF_REPO": wt}, timeout=4 * 3600)
            failing = re.findall(r"failing harness: (\S+):", out)
            viol = re.findall(r"^VIOLATION.*$", out, re.M)
            det[f"{p}:{tier}"] = dict(exit=rc, violation_line=viol[:1], failing_harnesses=sorted(set(failing))[:30], wall_s=round(time.time() - t0))
            print(name, p, tier, "exit", rc, "failing:", sorted(set(failing))[:6])
            open(os.path.join(VERIF, ".build", f"seeded-{name}-{p}-{tier}.log"), "w").write(out)
    finally:
        drop(wt)
        # drop the per-repo target dirs created for this scratch copy
        import hashlib
        tdir = os.path.join(VERIF, ".build", "target-" + hashlib.sha1(wt.encode()).hexdigest()[:10])
        shutil.rmtree(tdir, ignore_errors=True)
        # and the generated manifest / log directories of this scratch copy
        harness = os.environ.get("VERIF_HARNESS") or os.path.join(VERIF, "harness")
        cname = "crate-" + hashlib.sha1((wt + "|" + harness).encode()).hexdigest()[:10]
        shutil.rmtree(os.path.join(VERIF, ".build", cname), ignore_errors=True)
        shutil.rmtree(os.path.join(VERIF, ".build", "logs", cname), ignore_errors=True)
    meta["detection"] = det
    save(name, meta)


def cmd_table():
    """Markdown table of all seeded defects and what detected them (for DESIGN.md 9.4)."""
    rows = []
    for name in sorted(os.listdir(SEEDED)):
        mp = os.path.join(SEEDED, name, "meta.json")
        if not os.path.exists(mp):
            continue
        m = json.load(open(mp))
        conf = m.get("confirmed", {})
        ok = all(conf.get(k) for k in ("patch_applies", "suite_passes_with_patch", "demo_fails_with_patch", "demo_passes_without_patch"))
        det = m.get("detection", {})
        cells = []
        for key, d in sorted(det.items()):
            hs = d.get("failing_harnesses", [])
            verdict = {1: "VIOLATION", 0: "missed", 2: "inconclusive"}.get(d.get("exit"), str(d.get("exit")))
            cells.append(f"{key}: **{verdict}** ({len(hs)} harnesses, e.g. `{hs[0]}`)" if hs else f"{key}: **{verdict}**")
        files = ", ".join(m.get("files_changed", []) if isinstance(m.get("files_changed"), list) else [str(m.get("files_changed"))])
        need = (m.get("needs_to_manifest") or "")[:160].replace("|", "/").replace("\n", " ")
        rows.append(f"| {name} | {files} | {need} | {'yes' if ok else 'NO'} | {'; '.join(cells) or '-'} |")
    print("| seed | files | needs, to manifest | confirmed | detected by (property:tier) |")
    print("|---|---|---|---|---|")
    print("\n".join(rows))


def main():
    a = sys.argv[1:]
    if not a:
        print(__doc__)
        return 2
    if a[0] == "import":
        return cmd_import(a[1], a[2], a[3])
    if a[0] == "confirm":
        return cmd_confirm(a[1])
    if a[0] == "table":
        return cmd_table()
    if a[0] == "detect":
        tier = "quick"
        props = None
        if "--tier" in a:
            tier = a[a.index("--tier") + 1]
        if "--props" in a:
            props = a[a.index("--props") + 1].split(",")
        return cmd_detect(a[1], tier, props)
    print(__doc__)
    return 2


if __name__ == "__main__":
    sys.exit(main())
