#!/bin/bash
# dev helper: run every property's check of the given tier (with evidence), sequentially
tier=${1:-quick}; shift
props=${@:-C01 C02 C03 C04 C05 C06 C07 C08 C09 C10 C11 C12 C13 C14 C15 C16 C17}
mkdir -p /verif/.build/dev
: > /verif/.build/dev/all-$tier.log
for p in $props; do
  s=$(date +%s)
  python3 /verif/bin/check.py $p --tier $tier > /verif/.build/dev/$p-$tier.log 2>&1
  rc=$?
  echo "$p exit $rc wall $(( $(date +%s) - s ))s" >> /verif/.build/dev/all-$tier.log
done
