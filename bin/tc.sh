#!/bin/bash
# dev helper: type-check the harness crate (all modules or the given feature) without codegen
cd /verif/harness
feat=${1:-all}
CARGO_TARGET_DIR=/verif/.build/target/wtc CARGO_NET_OFFLINE=true cargo kani -Z unstable-options --no-codegen --no-default-features --features $feat 2>&1 | grep -E "^error" -A 16 | head -${2:-80}
