#!/bin/bash
# dev helper: type-check the harness crate (all modules or the given feature) without codegen
python3 -c "import sys; sys.path.insert(0,'/verif/bin'); import vlib; vlib.gen_manifest()"
cd /verif/.build/crate-main
feat=${1:-all}
CARGO_TARGET_DIR=/verif/.build/target/wtc CARGO_NET_OFFLINE=true cargo kani -Z unstable-options --no-codegen --no-default-features --features $feat 2>&1 | grep -E "^error" -A 16 | head -${2:-80}
# native build of everything (replay tests compile natively; catches e.g. format-string braces)
CARGO_TARGET_DIR=/verif/.build/target/wreplay CARGO_NET_OFFLINE=true cargo kani playback -Z concrete-playback --only-codegen 2>&1 | grep -E "^error" -A 12 | head -40
# stable-toolchain native build (this is what bin/setup.py's self-test compiles; Kani's nightly accepts more)
CARGO_TARGET_DIR=/verif/.build/target/wnative CARGO_NET_OFFLINE=true cargo test --offline --no-default-features --no-run --test spec_vectors 2>&1 | grep -E "^error" -A 12 | head -40
